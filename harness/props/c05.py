"""C05 - polynomial division terminates and satisfies dividend = q*divisor + r."""
from __future__ import annotations

from fractions import Fraction

from ..core import (numpy, numpoly, run_driver, poly_to_struct, any_to_struct, den_of_struct, den_key, err_kind,
                    time_limit, CaseTimeout, Monitor, coef_json, coef_from_json)
from .. import gen, oracle

RULE = ("dividend/divisor pairs over 1-3 indeterminates with dyadic coefficients and divisor leading coefficients in "
        "{+-1, +-2, +-1/2} (every quotient step exact in binary floating point): divisors with several incomparable "
        "top terms (q1**2-2*q0), arrays whose elements have different leading terms or are zero, exact multiples, "
        "constant divisors, broadcasting shapes; the division loop is observed through a harness-side wrapper of "
        "get_division_candidate (a repeated state or 400 iterations = non-termination, SIGALRM as backstop). Checked: "
        "termination, dividend == q*divisor + r (exact dictionary arithmetic), q and r equal the Lean long division "
        "element by element, r == 0 for exact multiples and constant divisors, deg r < deg divisor in one "
        "indeterminate, and / % divmod and their reflected forms return the components of poly_divmod. "
        "non-trivial = at least one reduction step happens (q != 0) and the divisor has >= 2 terms")


class NonTermination(Exception):
    pass


def observed_divmod(a, b, limit=400):
    """poly_divmod with the loop observed: raises NonTermination on a repeated state or too many iterations"""
    mod = numpoly.poly_function.divide.divmod
    orig = mod.get_division_candidate
    seen = set()
    count = [0]

    def spy(x1, x2, *args, **kwargs):
        count[0] += 1
        try:
            state = (x1.values.tobytes(), tuple(map(str, x1.keys)), x1.shape)
        except Exception:  # noqa: BLE001
            state = None
        if state is not None and state in seen:
            raise NonTermination(f"the running dividend repeats after {count[0]} iterations")
        seen.add(state)
        if count[0] > limit:
            raise NonTermination(f"more than {limit} iterations")
        return orig(x1, x2, *args, **kwargs)
    mod.get_division_candidate = spy
    try:
        with time_limit(20):
            return numpoly.poly_divmod(a, b), count[0]
    finally:
        mod.get_division_candidate = orig


def dyadic(rng, lim=3):
    return Fraction(int(rng.integers(-lim * 2, lim * 2 + 1)), int(gen.choice(rng, [1, 1, 2])))


def gen_poly_struct(rng, names, shape, nterms, maxexp, lead_ok=False, zero_elems=False):
    size = int(numpy.prod(shape, dtype=int))
    rows = set()
    for _ in range(nterms * 4):
        if len(rows) >= nterms:
            break
        rows.add(tuple(int(x) for x in rng.integers(0, maxexp + 1, size=len(names))))
    rows = sorted(rows) or [tuple([0] * len(names))]
    terms = []
    for e in rows:
        col = [Fraction(0) if rng.random() < .25 else dyadic(rng) for _ in range(size)]
        terms.append([list(e), col])
    if lead_ok:
        # the leading coefficient of every element (largest non-zero row in lexsort order) becomes +-1, +-2, +-1/2
        order = sorted(range(len(terms)), key=lambda k: tuple(reversed(terms[k][0])))
        for i in range(size):
            if zero_elems and rng.random() < .15:
                for t in terms:
                    t[1][i] = Fraction(0)
                continue
            nz = [k for k in order if terms[k][1][i] != 0]
            if not nz:
                terms[order[-1]][1][i] = Fraction(1)
                nz = [order[-1]]
            terms[nz[-1]][1][i] = gen.choice(rng, [Fraction(1), Fraction(-1), Fraction(2), Fraction(-2), Fraction(1, 2), Fraction(-1, 2)])
    return {"names": list(names), "shape": list(shape), "dtype": "float64", "kind": "float",
            "terms": [[e, [coef_json(c) for c in col]] for e, col in terms], "as": "poly"}


def gen_case(rng, i):
    mode = gen.choice(rng, ["general", "incomparable", "exact", "constant", "univariate", "array", "sparse"], p=[.22, .13, .18, .1, .12, .13, .12])
    if mode == "sparse":
        # few terms, high degree: many more reduction steps than terms (leading coefficient +-1 keeps every step exact)
        names = [0] if rng.random() < .7 else [0, 1]
        w = len(names)
        top = int(rng.integers(8, 25))
        mono = lambda e, c: [[e] + [0] * (w - 1), [c]]
        a = {"names": names, "shape": [], "dtype": "float64", "kind": "float", "as": "poly",
             "terms": [mono(top, int(gen.choice(rng, [1, 2, 3])))] + [mono(int(rng.integers(0, 3)), int(gen.choice(rng, [-1, 1, 2])))] +
                      ([[[1] + [1] * (w - 1), [1]]] if w == 2 and rng.random() < .5 else [])}
        seen = set()
        a["terms"] = [t for t in a["terms"] if not (tuple(t[0]) in seen or seen.add(tuple(t[0])))]
        d = int(rng.integers(1, 4))
        b = {"names": names, "shape": [], "dtype": "float64", "kind": "float", "as": "poly",
             "terms": [mono(d, int(gen.choice(rng, [1, -1])))] + [mono(0, int(gen.choice(rng, [-2, -1, 1, 2])))]}
        return {"id": i, "kind": "c05", "mode": mode, "a": a, "b": b}
    k = 1 if mode == "univariate" else int(rng.integers(1, 4))
    names = sorted(int(x) for x in rng.choice([0, 1, 2], size=k, replace=False))
    sa, sb = (gen.gen_shape_pair(rng) if mode in ("array", "general") and rng.random() < .6 else ((), ()))
    if mode == "array" and not sa and not sb:
        sa = sb = (3,)
    b = gen_poly_struct(rng, names, sb, int(rng.integers(1, 4)), 2, lead_ok=True, zero_elems=(mode == "array"))
    if mode == "incomparable" and len(names) >= 2:
        b = {"names": names[:2], "shape": [], "dtype": "float64", "kind": "float", "as": "poly",
             "terms": [[[0, 2], [1]], [[1, 0], [int(gen.choice(rng, [-2, -1, 1, 2]))]]] + ([[[0, 0], [int(rng.integers(-2, 3))]]] if rng.random() < .5 else [])}
        names = names[:2]
    if mode == "constant":
        size = int(numpy.prod(sb, dtype=int))
        b = {"names": [0], "shape": list(sb), "dtype": "float64", "kind": "float", "as": gen.choice(rng, ["poly", "ndarray", "scalar"]) if not sb else gen.choice(rng, ["poly", "ndarray"]),
             "terms": [[[0], [coef_json(gen.choice(rng, [Fraction(1), Fraction(-2), Fraction(1, 2), Fraction(4), Fraction(0)] if size > 1 else [Fraction(1), Fraction(-2), Fraction(1, 2), Fraction(4)])) for _ in range(size)]]]}
    a = gen_poly_struct(rng, names, sa, int(rng.integers(1, 5)), 3)
    if mode in ("general", "constant", "univariate", "array") and rng.random() < .2:
        # integer operands with large odd coefficients and a divisor whose leading coefficients are +-1, +-2, +-4: quotient
        # and remainder have halves / quarters next to values of 1e5 - 1e6 (seeded change C05-14: results of integer input
        # were rounded to whole numbers when "close" under allclose's relative tolerance)
        for t in a["terms"]:
            t[1] = [coef_json(Fraction(0) if coef_from_json(x) == 0 else Fraction(int(rng.integers(50000, 500000)) * 2 + 1) * (1 if coef_from_json(x) > 0 else -1))
                    for x in t[1]]
        a["dtype"], a["kind"] = "int64", "int"
        for t in b["terms"]:
            t[1] = [coef_json(coef_from_json(x) * 2) for x in t[1]]
        if all(coef_from_json(x).denominator == 1 for t in b["terms"] for x in t[1]):
            b["dtype"], b["kind"] = "int64", "int"
    c = {"id": i, "kind": "c05", "mode": mode, "a": a, "b": b}
    if mode == "exact":
        cof = gen_poly_struct(rng, names, sa, int(rng.integers(1, 3)), 2)
        c["cofactor"] = cof
    return c


def strip(s):
    return {k: s[k] for k in ("names", "shape", "terms")}


def bcast_den(d, shape_from, shape_to):
    """broadcast a denotation (columns per element) from one shape to another"""
    if list(shape_from) == list(shape_to):
        return d
    n = int(numpy.prod(shape_from, dtype=int))
    idx = numpy.broadcast_to(numpy.arange(n).reshape(shape_from), shape_to).ravel()
    return {m: tuple(col[i] for i in idx) for m, col in d.items()}


def check(ctx, c, monitor=None):
    tags = [f"mode:{c['mode']}"]
    sa, sb = c["a"], c["b"]
    if c["mode"] == "exact":
        # dividend = cofactor * divisor (exact dictionary arithmetic, broadcast)
        shape = list(numpy.broadcast_shapes(tuple(c["cofactor"]["shape"]), tuple(sb["shape"])))
        dd = oracle.dmul(bcast_den(den_of_struct(c["cofactor"]), c["cofactor"]["shape"], shape), bcast_den(den_of_struct(sb), sb["shape"], shape))
        names = sorted({n for m in dd for n, _ in m} | set(sb["names"]))
        size = int(numpy.prod(shape, dtype=int))
        sa = {"names": names or [0], "shape": shape, "dtype": "float64", "kind": "float", "as": "poly",
              "terms": [[[dict(m).get(n, 0) for n in (names or [0])], [coef_json(x) for x in col]] for m, col in dd.items()] or [[[0] * len(names or [0]), [0] * size]]}
    a = gen.materialize(sa, sa.get("as", "poly"))
    b = gen.materialize(sb, sb.get("as", "poly"))
    case = dict(c, a=sa)
    ctx.evaluations += 1
    ctx.count(f"mode={c['mode']}")
    try:
        if monitor:
            with monitor.watch("C05:poly_divmod", a, b):
                (q, r), iters = observed_divmod(a, b)
        else:
            (q, r), iters = observed_divmod(a, b)
    except NonTermination as err:
        ctx.fail(case, f"poly_divmod does not terminate: {err}", tags + ["non-termination"])
        return
    except CaseTimeout:
        ctx.fail(case, "poly_divmod did not return within 20 s", tags + ["non-termination", "timeout"])
        return
    except Exception as err:  # noqa: BLE001
        try:
            numpy.broadcast_shapes(tuple(sa["shape"]), tuple(sb["shape"]))
        except ValueError:
            return
        ctx.fail(case, f"poly_divmod raised {type(err).__name__}: {str(err)[:150]}", tags + [f"raises:{err_kind(err)}"])
        return
    ctx.count("iterations", iters)
    shape = list(numpy.broadcast_shapes(tuple(sa["shape"]), tuple(sb["shape"])))
    sq, sr = poly_to_struct(q), poly_to_struct(r)
    dq, dr = den_of_struct(sq), den_of_struct(sr)
    da, db = bcast_den(den_of_struct(sa), sa["shape"], shape), bcast_den(den_of_struct(sb), sb["shape"], shape)
    if sq["shape"] != shape or sr["shape"] != shape:
        ctx.fail(case, f"shapes {sq['shape']}, {sr['shape']} != broadcast shape {shape}", tags + ["shape"])
        return
    ident = oracle.dadd(oracle.dmul(dq, db), dr)
    if ident != da:
        ctx.fail(case, f"dividend != q*divisor + r: q={den_key(dq)[:120]} r={den_key(dr)[:120]}", tags + ["identity"])
        return
    if dq and len(sb["terms"]) >= 2:
        ctx.nontrivial_add((c["id"],))
    size = int(numpy.prod(shape, dtype=int))
    # constant non-zero divisor elements / exact multiples: r == 0 there
    for i in range(size):
        bi = {m: col[i] for m, col in db.items() if col[i] != 0}
        ri = {m: col[i] for m, col in dr.items() if col[i] != 0}
        if set(bi) == {()} and ri:
            ctx.fail(case, f"element {i}: divisor is the non-zero constant {bi[()]} but the remainder is {ri}", tags + ["constant-divisor"])
            return
        if c["mode"] == "exact" and bi and ri:
            ctx.fail(case, f"element {i}: dividend is an exact multiple of the divisor but the remainder is {ri}", tags + ["exact-multiple"])
            return
        if len(sb["names"]) == 1 and len(sa["names"]) == 1 and sa["names"] == sb["names"] and bi and ri:
            degb = max(sum(x for _, x in m) for m in bi)
            degr = max(sum(x for _, x in m) for m in ri)
            if degr >= degb:
                ctx.fail(case, f"element {i}: deg r = {degr} >= deg divisor = {degb}", tags + ["degree"])
                return
    return (a, b, q, r, shape, dq, dr)


def check_model(ctx, c, out, model):
    if out is None or model.get("status") != "ok":
        return
    a, b, q, r, shape, dq, dr = out
    names = model["names"]
    for i, el in enumerate(model["elements"]):
        if el.get("timeout"):
            ctx.fail(c, f"the Lean division ran out of fuel on element {i} (model: non-termination)", ["model-fuel"])
            return
        for which, dd in (("q", dq), ("r", dr)):
            want = {tuple(sorted((n, x) for n, x in zip(names, e) if x)): coef_from_json(cf) for e, cf in el[which]}
            want = {m: v for m, v in want.items() if v != 0}
            got = {m: col[i] for m, col in dd.items() if col[i] != 0}
            if got != want:
                ctx.fail(c, f"element {i}: {which} = {got} but the long division with the leading term in lexsort order gives {want}",
                         [f"mode:{c['mode']}", "value", which])
                return


def check_operators(ctx, rng, n):
    q0, q1 = numpoly.variable(2)
    for _ in range(n):
        a = gen.materialize(gen_poly_struct(rng, [0, 1], (), 3, 3))
        b = gen.materialize(gen_poly_struct(rng, [0, 1], (), 2, 1, lead_ok=True))
        num = gen.choice(rng, [4.0, numpy.array(6.0), numpy.array([2.0, 8.0]), [2.0, 4.0], 3])
        arr_div = gen.choice(rng, [numpy.array([2.0, 0.0, 4.0]), numpy.array([[1.5], [0.0]]), numpy.array([0.0, 0.0]), numpy.array([2.0, -4.0]), [0.5, 0.0]])
        A = gen.materialize(gen_poly_struct(rng, [0, 1], gen.choice(rng, [(), (1,)]), 3, 2))
        # integer-coefficient divisor with a fractional number / list / array on the left (reflected operators)
        bi = numpoly.polynomial([2, q0, 4]) if rng.random() < .5 else numpoly.polynomial(2 * q0 + int(rng.integers(1, 4)))
        fnum = gen.choice(rng, [7.5, -2.25, [1.5, 2.5, 3.0] if bi.shape else [1.5], numpy.array(0.75)])
        # a plain number / numpy scalar as the divisor, zero included (seeded change C05-8: `/` took a numeric short cut)
        sdiv = gen.choice(rng, [2.0, 0.0, 0, numpy.float64(0.0), numpy.int64(0), -0.5, numpy.float32(0.0), numpy.int64(4)])
        # a number on the left of an array divisor that mixes polynomial and non-zero constant elements (seeded change
        # C05-10: a whole-array "dividend is constant, divisor is not" short cut in poly_divide)
        bmix = numpoly.polynomial([q0 + int(rng.integers(0, 3)), int(gen.choice(rng, [2, 4, -2])), q1 * q0 + 1])
        cnum = gen.choice(rng, [4, 8.0, [4, 6, 8], numpy.array(6)])
        ctx.evaluations += 1
        try:
            qd, rd = numpoly.poly_divmod(a, b)
            pairs = [("number / mixed divisor", cnum / bmix, numpoly.poly_divmod(cnum, bmix)[0]),
                     ("poly_divide(number, mixed divisor)", numpoly.poly_divide(cnum, bmix), numpoly.poly_divmod(cnum, bmix)[0]),
                     ("identity with mixed divisor", (cnum / bmix) * bmix + cnum % bmix, numpoly.polynomial(cnum) + 0.0 * bmix),
                     ("poly / scalar %r" % (sdiv,), a / sdiv, numpoly.poly_divide(a, sdiv)),
                     ("poly %% scalar %r" % (sdiv,), a % sdiv, numpoly.poly_remainder(a, sdiv)),
                     ("divmod(poly, scalar %r)[0]" % (sdiv,), divmod(a, sdiv)[0], numpoly.poly_divmod(a, sdiv)[0]),
                     ("identity with scalar divisor %r" % (sdiv,), (a / sdiv) * sdiv + a % sdiv, a + 0.0),
                     ("/", a / b, numpoly.poly_divide(a, b)), ("%", a % b, numpoly.poly_remainder(a, b)),
                     ("divmod[0]", divmod(a, b)[0], qd), ("divmod[1]", divmod(a, b)[1], rd),
                     ("poly_divide", numpoly.poly_divide(a, b), qd), ("poly_remainder", numpoly.poly_remainder(a, b), rd),
                     ("reflected /", num / b, numpoly.poly_divide(num, b)), ("reflected %", num % b, numpoly.poly_remainder(num, b)),
                     ("reflected divmod[0]", divmod(num, b)[0], numpoly.poly_divmod(num, b)[0]),
                     ("reflected divmod[1]", divmod(num, b)[1], numpoly.poly_divmod(num, b)[1]),
                     ("reflected / (float left, int polynomial)", fnum / bi, numpoly.poly_divide(fnum, bi)),
                     ("reflected % (float left, int polynomial)", fnum % bi, numpoly.poly_remainder(fnum, bi)),
                     ("reflected divmod[0] (float left, int polynomial)", divmod(fnum, bi)[0], numpoly.poly_divmod(fnum, bi)[0]),
                     ("reflected divmod[1] (float left, int polynomial)", divmod(fnum, bi)[1], numpoly.poly_divmod(fnum, bi)[1]),
                     ("reflected identity (float left, int polynomial)", divmod(fnum, bi)[0] * bi + divmod(fnum, bi)[1], numpoly.polynomial(fnum) + 0 * bi),
                     ("poly / number", a / 2.0, numpoly.poly_divide(a, 2.0)),
                     ("poly % numeric array", A % arr_div, numpoly.poly_remainder(A, arr_div)),
                     ("poly / numeric array", A / arr_div, numpoly.poly_divide(A, arr_div)),
                     ("divmod(poly, numeric array)[1]", divmod(A, arr_div)[1], numpoly.poly_divmod(A, arr_div)[1]),
                     ("identity with numeric array divisor", (A / arr_div) * numpy.asarray(arr_div) + A % arr_div, A + numpy.zeros(numpy.shape(arr_div)))]
        except Exception as err:  # noqa: BLE001
            ctx.fail({"kind": "operators", "a": str(a), "b": str(b)}, f"operator spelling raised {type(err).__name__}: {str(err)[:120]}", ["operators", "raises"])
            continue
        # a numpy *scalar* on the left: numpy's own operator runs first and hands the call to the ufunc protocol
        for label, f, g in (("numpy scalar / poly", lambda: numpy.float64(4.0) / b, lambda: numpoly.poly_divide(4.0, b)),
                            ("numpy scalar % poly", lambda: numpy.float64(4.0) % b, lambda: numpoly.poly_remainder(4.0, b)),
                            ("divmod(numpy scalar, poly)", lambda: divmod(numpy.int64(3), b)[1], lambda: numpoly.poly_divmod(3, b)[1])):
            try:
                x, y = f(), g()
                if den_of_struct(any_to_struct(x)) != den_of_struct(any_to_struct(y)):
                    ctx.fail({"kind": "operators", "b": str(b)}, f"{label} differs from the corresponding poly_* function", ["operators", "numpy-scalar-left", "value"])
            except Exception as err:  # noqa: BLE001
                ctx.fail({"kind": "operators", "b": str(b)}, f"{label} raised {type(err).__name__}: {str(err)[:100]} while the poly_* function divides", ["operators", "numpy-scalar-left", "raises"])
        for label, x, y in pairs:
            sx, sy = any_to_struct(x), any_to_struct(y)
            if sx["shape"] != sy["shape"] or den_of_struct(sx) != den_of_struct(sy):
                ctx.fail({"kind": "operators", "a": str(a), "b": str(b), "num": str(num)}, f"{label} differs from the corresponding poly_* function", ["operators", "value"])
                break
        ctx.count("operators")


def check_history(ctx, rng, n):
    """the same operand objects divided again after being updated in place (through their raw storage, or through an
    explicit output target): every division must be about the operands' current values - no result may be remembered"""
    for _ in range(n):
        a = gen.materialize(gen_poly_struct(rng, [0, 1], gen.choice(rng, [(), (2,)]), 3, 3))
        b = gen.materialize(gen_poly_struct(rng, [0, 1], (), 2, 1, lead_ok=True))
        ctx.evaluations += 1
        ctx.count("history")
        try:
            first = numpoly.poly_divmod(a, b)
            key = a.keys[int(rng.integers(len(a.keys)))]
            how = gen.choice(rng, ["values", "out", "divisor"])
            if how == "values":
                a.values[key] = a.values[key] * 2 + 1           # in-place update of the dividend's storage
            elif how == "out":
                numpoly.multiply(a, 3, out=a)                   # explicit output target = the dividend itself
            else:
                b.values[b.keys[0]] = b.values[b.keys[0]] * 2 + 3     # ... or of the divisor
            again = numpoly.poly_divmod(a, b)
            fresh = numpoly.poly_divmod(numpoly.polynomial(a.copy()), numpoly.polynomial(b.copy()))
            ops = [("poly_divmod", again), ("operators", (a / b, a % b)), ("divmod()", divmod(a, b))]
        except Exception as err:  # noqa: BLE001
            ctx.fail({"kind": "history", "a": str(a), "b": str(b)}, f"division after an in-place update raised {type(err).__name__}: {str(err)[:120]}", ["history", "raises"])
            continue
        for label, (q, r) in ops:
            sq, sr, fq, fr = any_to_struct(q), any_to_struct(r), any_to_struct(fresh[0]), any_to_struct(fresh[1])
            if den_of_struct(sq) != den_of_struct(fq) or den_of_struct(sr) != den_of_struct(fr):
                ctx.fail({"kind": "history", "a": str(a), "b": str(b), "update": how},
                         f"{label} after an in-place update ({how}) returns ({q}, {r}); dividing fresh copies of the same operands gives ({fresh[0]}, {fresh[1]})",
                         ["history", "value"])
                break


def corpus():
    one = lambda names, terms: {"names": names, "shape": [], "dtype": "float64", "kind": "float", "terms": terms, "as": "poly"}
    return [{"id": "corpus-D3", "kind": "c05", "mode": "incomparable", "a": one([0, 1], [[[2, 1], [1]]]),
             "b": one([0, 1], [[[0, 2], [1]], [[1, 0], [-1]]])},
            {"id": "corpus-D3b", "kind": "c05", "mode": "incomparable", "a": one([0, 1], [[[2, 1], [1]], [[0, 3], [2]]]),
             "b": one([0, 1], [[[0, 2], [1]], [[1, 0], [-2]]])}]


NONFINITE = [
    # (dividend, divisor) as Python expressions over q0, q1, nan, inf: the division must come back (D42)
    ("q0**2+1", "nan"), ("q0**2+1", "nan*q0"), ("q0**2+1", "nan*q0+1"), ("q0**2+1", "q0+nan"), ("nan*q0**2+q0", "q0+1"),
    ("q0**3+nan", "q0+1"), ("[nan*q0**2+q0, q0**3+1]", "q0+1"), ("[q0**2+q0, q0**3+1]", "[nan*q0+1, q0+nan]"),
    ("inf*q0**2+1", "q0+1"), ("q0**2+1", "inf*q0+1"), ("q0**2+1", "inf"), ("q0*q1+q1**2", "nan*q1+q0"),
    ("q0**2*q1+1", "q1+nan*q0"),
    # finite operands whose coefficient ratio overflows (seeded change C05-11): the outputs stay finite and the identity
    # holds (checked below for entries flagged by "!")
    ("!3e200*q0**2+2*q0", "1e-200*q0+1"), ("!1e300*q0", "1e-300*q0"), ("![3e200*q0**2, q0**2+q0]", "[1e-200*q0+1, q0]"), ("[[q0**2, q1**2], [nan, 1]]", "[q0+1, nan*q1]"), ("-inf*q0", "inf*q0"), ("nan", "nan"),
]


def check_nonfinite(ctx):
    """coefficients that are not numbers: nothing is claimed about the values, the division has to terminate"""
    import warnings
    q0, q1 = numpoly.variable(2)
    env = {"q0": q0, "q1": q1, "nan": numpy.nan, "inf": numpy.inf}
    for a_txt, b_txt in NONFINITE:
        finite_inputs = a_txt.startswith("!")
        a_txt = a_txt.lstrip("!")
        case = {"kind": "nonfinite", "dividend": a_txt, "divisor": b_txt}
        ctx.evaluations += 1
        ctx.count("nonfinite")
        try:
            with warnings.catch_warnings():
                warnings.simplefilter("ignore")
                a = numpoly.polynomial(eval(a_txt, env))     # noqa: S307 - fixed table above
                b = numpoly.polynomial(eval(b_txt, env))     # noqa: S307
                with time_limit(10):
                    q, r = numpoly.poly_divmod(a, b)
            if q.shape != numpy.broadcast_shapes(a.shape, b.shape) or r.shape != q.shape:
                ctx.fail(case, f"poly_divmod({a_txt}, {b_txt}): shapes {q.shape}, {r.shape}", ["nonfinite", "shape"])
            elif finite_inputs:
                with warnings.catch_warnings():
                    warnings.simplefilter("ignore")
                    bad = [c for p in (q, r) for c in p.coefficients if not numpy.all(numpy.isfinite(c))]
                    back = q * b + r
                    same = bool(numpy.all(numpoly.equal(back, a + 0 * b)))
                if bad or not same:
                    ctx.fail(case, f"poly_divmod({a_txt}, {b_txt}) of finite operands: q = {q}, r = {r}" + ("" if same else " (dividend != q*divisor + r)"),
                             ["nonfinite", "overflow"])
        except CaseTimeout:
            ctx.fail(case, f"poly_divmod({a_txt}, {b_txt}) did not terminate within 10 s", ["nonfinite", "termination"])
        except Exception as err:  # noqa: BLE001
            ctx.fail(case, f"poly_divmod({a_txt}, {b_txt}) raised {type(err).__name__}: {str(err)[:100]}", ["nonfinite", "raises"])


def run(ctx):
    ctx.rule = RULE
    rng = ctx.rng("cases")
    monitor = Monitor()
    n = 500 if ctx.quick else 6000
    cases = corpus() + [gen_case(rng, i) for i in range(n)]
    outs = []
    drv = []
    for c in cases:
        out = check(ctx, c, monitor)
        outs.append(out)
        if out is not None:
            a, b = out[0], out[1]
            drv.append({"id": len(drv), "op": "divmod", "a": strip(any_to_struct(a)), "b": strip(any_to_struct(b)), "fuel": 400})
        if ctx.out_of_time():
            ctx.notes.append("stopped early: time budget")
            break
    answers = iter(run_driver(drv))
    for c, out in zip(cases, outs):
        if out is not None:
            check_model(ctx, c, out, next(answers))
    check_operators(ctx, ctx.rng("operators"), 40 if ctx.quick else 400)
    check_history(ctx, ctx.rng("history"), 30 if ctx.quick else 300)
    check_nonfinite(ctx)
    ctx.sample({"dividend": cases[0]["a"], "divisor": cases[0]["b"], "note": "witness of the former 2-cycle (D3)"})
    ctx.extra["argument_monitor"] = {"calls": monitor.calls, "mutations": monitor.events[:5]}


def replay(ctx, case):
    if case.get("kind") == "nonfinite":
        n0 = len(ctx.failures)
        check_nonfinite(ctx)
        hits = [f for f in ctx.failures[n0:] if f["case"]["dividend"] == case["dividend"] and f["case"]["divisor"] == case["divisor"]]
        return hits[0]["what"] if hits else None
    if case.get("kind") == "history":
        n0 = len(ctx.failures)
        from ..core import make_rng
        check_history(ctx, make_rng(ctx.seed, "C05/history"), 300)
        return ctx.failures[n0]["what"] if len(ctx.failures) > n0 else None
    n = len(ctx.failures)
    out = check(ctx, case)
    if out is not None:
        a, b = out[0], out[1]
        ans = run_driver([{"id": 0, "op": "divmod", "a": strip(any_to_struct(a)), "b": strip(any_to_struct(b)), "fuel": 400}])[0]
        check_model(ctx, case, out, ans)
    return ctx.failures[n]["what"] if len(ctx.failures) > n else None

"""C13 - pickle, copy and text save/load round-trip polynomial arrays."""
from __future__ import annotations

import copy
import bz2
import gzip
import io
import lzma
import pathlib
import os
import pickle
import re
import tempfile
import warnings

from ..core import (MalformedResult, numpy, numpoly, run_driver, poly_to_struct, den_of_struct, den_key, err_kind, Monitor)
from .. import gen

RULE = ("C01 polynomial arrays (int and dyadic float coefficients, 1-4 names incl. q10, shapes 0-d .. 3-d incl. size-1 "
        "axes, single-term polynomials, transposed views) x pickle protocols 0-5, copy.copy, copy.deepcopy, .copy() "
        "(exact: shape, dtype, names, exponents, coefficients) and x numpoly.savetxt / numpy.savetxt with fmt / "
        "delimiter / header / comments settings into file objects (text and binary) and paths, read back with "
        "numpoly.loadtxt (shape, names, values to the precision of the format); the header line written by the "
        "implementation is compared with the Lean header codec and must parse back; files without the numpoly header "
        "must load as plain arrays. non-trivial = >= 2 terms and >= 2 elements")


# exponents whose storage key (chr(e + 59)) is not ASCII, counts as Unicode whitespace (74, 101, 5701, 8173, 8228), or is
# the last one latin1 can carry (196)
ODD_EXPONENTS = [69, 74, 100, 101, 133, 196, 5701, 8173, 8228]


def P(rng, **kw):
    kw.setdefault("kind", gen.choice(rng, ["int", "float"], p=[.5, .5]))
    s = gen.gen_struct(rng, **kw)
    s["as"] = "poly_T" if len(s["shape"]) >= 2 and rng.random() < .15 else "poly"
    if s["terms"] and rng.random() < .2:
        t = s["terms"][int(rng.integers(len(s["terms"])))]
        e = list(t[0])
        e[int(rng.integers(len(e)))] = int(gen.choice(rng, ODD_EXPONENTS))
        if e not in [u[0] for u in s["terms"]]:
            t[0] = e
            s["odd_exponent"] = max(e)
    return s


def same_exact(a, b):
    """shape, dtype, names, exponents and coefficients identical"""
    sa = poly_to_struct(a)
    try:
        sb = poly_to_struct(b)
    except MalformedResult as err:
        return [f"the object that came back is unreadable: {err}"]
    probs = []
    for k in ("shape", "dtype", "names"):
        if sa[k] != sb[k]:
            probs.append(f"{k} {sb[k]} != {sa[k]}")
    if den_of_struct(sa) != den_of_struct(sb):
        probs.append("polynomial values differ")
    elif sorted(map(str, sa["terms"])) != sorted(map(str, sb["terms"])):
        probs.append("stored terms differ")
    return probs


def oob(kind):
    """protocol-5 pickle with out-of-band buffers, shipped back as writable (bytearray) or immutable (bytes) objects"""
    def f(q):
        bufs = []
        data = pickle.dumps(q, protocol=5, buffer_callback=bufs.append)
        return pickle.loads(data, buffers=[kind(b.raw()) for b in bufs])
    return f


def run_copies(ctx, rng, n, monitor):
    for i in range(n):
        s = P(rng)
        p = gen.materialize(s, s["as"])
        if i % 5 == 4:
            # coefficients stored in non-native byte order (as read from big-endian data): part of the dtype
            p = p.astype(numpy.dtype(p.dtype).newbyteorder(">"))
            s = dict(s, byteorder=">")
        case = {"kind": "copy", "a": s}
        ways = [(f"pickle protocol {k}", (lambda k: lambda q: pickle.loads(pickle.dumps(q, protocol=k)))(k)) for k in range(6)]
        ways += [("copy.copy", copy.copy), ("copy.deepcopy", copy.deepcopy), (".copy()", lambda q: q.copy())]
        ways += [("pickle oob writable protocol 5", oob(bytearray)), ("pickle oob readonly protocol 5", oob(bytes))]
        for label, f in ways:
            ctx.evaluations += 1
            ctx.count(label.split()[0])
            # the option settings in force while copying / unpickling decide nothing
            opts = {"retain_names": False, "retain_coefficients": False} if (i + len(label)) % 4 == 0 else {}
            try:
                with monitor.watch(f"C13:{label}", p), numpoly.global_options(**opts):
                    r = f(p)
            except Exception as err:  # noqa: BLE001
                ctx.fail(dict(case, how=label), f"{label} raised {type(err).__name__}: {str(err)[:120]}", ["copy", f"how:{label}", "raises"])
                continue
            if not isinstance(r, numpoly.ndpoly):
                ctx.fail(dict(case, how=label), f"{label} returned {type(r).__name__}", ["copy", f"how:{label}", "type"])
                continue
            # exactly the same polynomial array: stored terms (also all-zero ones), names (also unused ones), dtype (D57)
            probs = same_exact(p, r)
            if probs:
                ctx.fail(dict(case, how=label), f"{label}: {probs}", ["copy", f"how:{label}", "value"])
        if len(s["terms"]) >= 2 and int(numpy.prod(s["shape"], dtype=int)) >= 2:
            ctx.nontrivial_add(("copy", i))


FORMATS = [({}, 0), ({"fmt": "%.18e"}, 0), ({"fmt": "%.6f"}, 6), ({"fmt": "%.3f"}, 3), ({"fmt": "%g"}, 5), ({"fmt": "%d"}, 0)]


def run_text(ctx, rng, n, monitor, tmp):
    drv, pending = [], []
    for i in range(n):
        kw, digits = FORMATS[int(rng.integers(len(FORMATS)))]
        kind = "int" if kw.get("fmt") == "%d" else gen.choice(rng, ["int", "float"])
        s = P(rng, kind=kind, nterms=int(gen.choice(rng, [1, 1, 2, 3, 5])), shape=gen.choice(rng, [(), (1,), (2,), (3,), (1, 1), (2, 2), (2, 1, 3), (1, 3), (4,)]))
        if kind == "float" and digits and digits < 5:
            # keep values representable at the format's precision: multiples of 1/8 need three decimals
            pass
        p = gen.materialize(s, s["as"])
        opts = dict(kw)
        if rng.random() < .3:
            opts["delimiter"] = gen.choice(rng, [",", ";", "\t"])
        if rng.random() < .3:
            opts["header"] = gen.choice(rng, ["extra header line", "a\nb"])
        if rng.random() < .25:
            opts["comments"] = gen.choice(rng, ["% ", "## "])
        writer = gen.choice(rng, ["numpoly.savetxt", "numpy.savetxt"])
        target = gen.choice(rng, ["StringIO", "BytesIO", "path"])
        case = {"kind": "text", "a": s, "options": {k: v for k, v in opts.items()}, "writer": writer, "target": target}
        tags = ["text", f"writer:{writer}", f"target:{target}"] + [f"opt:{k}" for k in opts] + (["single-term"] if len(p.exponents) == 1 else []) + (["0-d"] if not p.shape else [])
        ctx.evaluations += 1
        ctx.count(f"text.{target}")
        save = numpoly.savetxt if writer == "numpoly.savetxt" else numpy.savetxt
        load_kw = {k: opts[k] for k in ("delimiter", "comments") if k in opts}
        try:
            with warnings.catch_warnings():
                warnings.simplefilter("ignore")
                if target == "path":
                    # numpy's savetxt / loadtxt compress by extension; str and pathlib paths (D43)
                    ext = gen.choice(rng, [".txt", ".txt", ".dat", "", ".txt.gz", ".gz", ".bz2", ".xz"])
                    case["extension"] = ext
                    tags.append(f"ext:{ext}")
                    path = os.path.join(tmp, f"f{i}{ext}")
                    as_path = pathlib.Path(path) if rng.random() < .3 else path
                    with monitor.watch("C13:savetxt", p):
                        save(as_path, p, **opts)
                    opener = {".gz": gzip.open, ".bz2": bz2.open, ".xz": lzma.open}.get(os.path.splitext(path)[1], open)
                    with opener(path, "rt") as fh:
                        first = fh.readline()
                    r = numpoly.loadtxt(as_path, **load_kw)
                else:
                    f = io.StringIO() if target == "StringIO" else io.BytesIO()
                    # sometimes the polynomial is not the first thing in the stream: the caller has written (and, when
                    # loading, already consumed) a title line, so the file object is handed over at a non-zero position
                    offset = 0
                    if rng.random() < .3:
                        title = "a run of experiment 7\n"
                        f.write(title if target == "StringIO" else title.encode())
                        offset = f.tell()
                        case["offset"] = offset
                        tags.append("offset")
                    with monitor.watch("C13:savetxt", p):
                        save(f, p, **opts)
                    raw = f.getvalue()[offset:]
                    first = (raw if isinstance(raw, str) else raw.decode("latin1")).split("\n", 1)[0]
                    f.seek(offset)
                    r = numpoly.loadtxt(f, **load_kw)
        except UnicodeEncodeError as err:
            if target == "BytesIO" and s.get("odd_exponent", 0) > 196:
                ctx.count("text.binary-cannot-carry-key")
                continue
            ctx.fail(case, f"text round trip raised {type(err).__name__}: {str(err)[:150]}", tags + [f"raises:{err_kind(err)}"])
            continue
        except Exception as err:  # noqa: BLE001
            ctx.fail(case, f"text round trip raised {type(err).__name__}: {str(err)[:150]}", tags + [f"raises:{err_kind(err)}"])
            continue
        if not isinstance(r, numpoly.ndpoly):
            ctx.fail(case, f"loadtxt returned {type(r).__name__} for a file with the numpoly header", tags + ["type"])
            continue
        sp, sr = poly_to_struct(p), poly_to_struct(r)
        if sr["shape"] != sp["shape"]:
            ctx.fail(case, f"shape {sr['shape']} after the round trip, was {sp['shape']}", tags + ["shape"])
            continue
        dp, dr = den_of_struct(sp), den_of_struct(sr)
        if dp != dr and not (digits and close(dp, dr, digits)):
            ctx.fail(case, f"values after the round trip {den_key(dr)[:150]} != {den_key(dp)[:150]}", tags + ["value"])
            continue
        used = {n for m in dp for n, _ in m}
        if not used <= set(sr["names"]) or (sr["names"] != sp["names"] and set(sr["names"]) - set(sp["names"])):
            ctx.fail(case, f"names after the round trip {sr['names']}, were {sp['names']}", tags + ["names"])
            continue
        if len(s["terms"]) >= 2 and int(numpy.prod(s["shape"], dtype=int)) >= 2:
            ctx.nontrivial_add(("text", i))
        # the header line against the Lean codec
        m = re.search(r"names:([^ ]+) keys:([^ ]+) shape:([\d,]*)", first)
        if m is None:
            ctx.fail(case, f"no numpoly header in the first line {first[:80]!r}", tags + ["header"])
            continue
        drv.append({"id": len(drv), "op": "header", "names": [[ord(ch) for ch in nm] for nm in p.names],
                    "keys": [[ord(ch) for ch in str(k)] for k in p.keys], "shape": list(p.shape)})
        pending.append((case, tags, f"{m.group(1)} {m.group(2)} {m.group(3)}"))
    for (case, tags, text), ans in zip(pending, run_driver(drv)):
        model_text = "".join(chr(c) for c in ans["text"])
        if not ans["roundtrip"]:
            raise RuntimeError(f"Lean header codec does not round-trip {case}")
        if model_text != text:
            ctx.fail(case, f"header payload {text!r} differs from the codec's {model_text!r}", tags + ["header"])


def close(dp, dr, digits):
    if set(dp) != set(dr):
        return False
    tol = 0.51 * 10 ** (-digits)
    for m in dp:
        for x, y in zip(dp[m], dr[m]):
            if abs(float(x) - float(y)) > tol * max(1.0, abs(float(x))):
                return False
    return True


def run_textfile(ctx, rng, n):
    """the whole file against the proved model (Np/Model/TextFile.lean, theorem file_roundtrip): polynomials with natural
    coefficients written with fmt="%d" and a one-character delimiter - the data lines must be the model's, character by
    character, the header payload the codec's, and the model's loader must read the implementation's file back to the
    stored coefficient columns; numpoly.loadtxt must restore the polynomial"""
    cases, drv = [], []
    for i in range(n):
        shape = gen.choice(rng, [(), (), (1,), (3,), (2, 2), (1, 3), (2, 1, 2)])
        s = gen.gen_struct(rng, shape=shape, kind="int", names=gen.gen_names(rng, 1, 3), nterms=int(rng.integers(1, 4)), maxexp=3)
        for t in s["terms"]:
            t[1] = [abs(int(v)) * int(gen.choice(rng, [1, 1, 7, 1000003])) for v in t[1]]
        p = gen.materialize(s)
        delim = gen.choice(rng, [",", " ", "\t"])
        writer = gen.choice(rng, ["numpoly.savetxt", "numpy.savetxt"])
        f = io.StringIO()
        case = {"kind": "textfile", "a": s, "delimiter": delim, "writer": writer}
        try:
            (numpoly.savetxt if writer == "numpoly.savetxt" else numpy.savetxt)(f, p, fmt="%d", delimiter=delim)
            text = f.getvalue()
            f.seek(0)
            back = numpoly.loadtxt(f, delimiter=delim)
        except Exception as err:  # noqa: BLE001
            ctx.fail(case, f"text round trip (fmt='%d') raised {type(err).__name__}: {str(err)[:120]}", ["textfile", "raises"])
            continue
        ctx.evaluations += 1
        ctx.count("textfile")
        if len(p.exponents) == 1 or not p.shape:
            ctx.nontrivial_add(("tf", i))
        lines = text.split("\n")
        if lines and lines[-1] == "":
            lines = lines[:-1]
        m = re.search(r"names:([^ ]+) keys:([^ ]+) shape:([\d,]*)", lines[0]) if lines else None
        if m is None or not lines[0].startswith("# numpoly:"):
            ctx.fail(case, f"first line {lines[:1]!r} is not the numpoly header", ["textfile", "header"])
            continue
        if den_of_struct(poly_to_struct(back)) != den_of_struct(poly_to_struct(p)) or back.shape != p.shape or back.names != p.names:
            ctx.fail(case, f"loadtxt(savetxt(p, fmt='%d')) = {back}, was {p}", ["textfile", "value"])
            continue
        payload = f"# {m.group(1)} {m.group(2)} {m.group(3)}"
        cols = [[int(v) for v in numpy.asarray(c).ravel().tolist()] for c in p.coefficients]
        cases.append((case, lines, payload, cols, p))
        drv.append({"id": len(drv), "op": "textfile", "names": [[ord(ch) for ch in nm] for nm in p.names],
                    "keys": [[ord(ch) for ch in str(k)] for k in p.keys], "shape": list(p.shape), "cols": cols,
                    "delim": ord(delim), "lines": [[ord(ch) for ch in ln] for ln in [payload] + lines[1:]]})
    for (case, lines, payload, cols, p), ans in zip(cases, run_driver(drv)):
        model_lines = ["".join(chr(c) for c in ln) for ln in ans["lines"]]
        if not ans["roundtrip"]:
            raise RuntimeError(f"the Lean text-file model does not round-trip its own file: {case}")
        if model_lines[0] != payload:
            ctx.fail(case, f"header payload {payload!r} differs from the model's {model_lines[0]!r}", ["textfile", "header"])
        elif model_lines[1:] != lines[1:]:
            ctx.fail(case, f"data lines {lines[1:][:4]} differ from the model's {model_lines[1:][:4]} (one line per element, one number per stored term)",
                     ["textfile", "layout"])
        elif ans["loaded"] is None or ans["loaded"]["cols"] != cols or ans["loaded"]["shape"] != list(p.shape):
            ctx.fail(case, f"the model's loader reads the written file as {ans['loaded']}, the stored columns are {cols}", ["textfile", "load"])


def run_plain(ctx, rng, n, tmp):
    for i in range(n):
        shape = gen.choice(rng, [(3,), (2, 2), (1, 3), (4, 1), (2,)])
        a = rng.integers(-5, 6, size=shape).astype(float)
        target = gen.choice(rng, ["StringIO", "path", "BytesIO"])
        case = {"kind": "plain", "array": a.tolist(), "target": target}
        ctx.evaluations += 1
        try:
            if target == "path":
                path = os.path.join(tmp, f"p{i}.txt")
                numpy.savetxt(path, a)
                r = numpoly.loadtxt(path)
                want = numpy.loadtxt(path)
            else:
                f = io.StringIO() if target == "StringIO" else io.BytesIO()
                numpy.savetxt(f, a)
                f.seek(0)
                r = numpoly.loadtxt(f)
                f.seek(0)
                want = numpy.loadtxt(f)
        except Exception as err:  # noqa: BLE001
            ctx.fail(case, f"loading a plain file raised {type(err).__name__}: {str(err)[:120]}", ["plain", "raises"])
            continue
        if isinstance(r, numpoly.ndpoly) or numpy.asarray(r).shape != want.shape or not numpy.array_equal(numpy.asarray(r), want):
            ctx.fail(case, f"a file without the numpoly header loaded as {r!r}; numpy.loadtxt gives {want.tolist()}", ["plain", f"target:{target}", "value"])


def run(ctx):
    ctx.rule = RULE
    monitor = Monitor()
    q = ctx.quick
    with tempfile.TemporaryDirectory() as tmp:
        run_copies(ctx, ctx.rng("copies"), 120 if q else 1500, monitor)
        run_text(ctx, ctx.rng("text"), 250 if q else 4000, monitor, tmp)
        run_plain(ctx, ctx.rng("plain"), 40 if q else 400, tmp)
    run_textfile(ctx, ctx.rng("textfile"), 150 if q else 2500)
    ctx.extra["argument_monitor"] = {"calls": monitor.calls, "mutations": monitor.events[:5]}
    ctx.sample({"text round trip": {"shape": [], "terms": 1, "writer": "numpoly.savetxt", "target": "StringIO"},
                "header payload": "q0 ; "})


def replay(ctx, case):
    n = len(ctx.failures)
    from ..core import make_rng
    with tempfile.TemporaryDirectory() as tmp:
        if case["kind"] == "copy":
            p = gen.materialize(case["a"], case["a"].get("as", "poly"))
            if case["a"].get("byteorder"):
                p = p.astype(numpy.dtype(p.dtype).newbyteorder(case["a"]["byteorder"]))
            k = int(case["how"].split()[-1]) if case["how"].startswith("pickle") else None
            if "oob" in case["how"]:
                try:
                    r = oob(bytes if "readonly" in case["how"] else bytearray)(p)
                except Exception as err:  # noqa: BLE001
                    return f"{case['how']} raised {type(err).__name__}: {err}"
                probs = [x for x in same_exact(p, r) if x != "stored terms differ"]
                return str(probs) if probs else None
            r = pickle.loads(pickle.dumps(p, protocol=k)) if k is not None else {"copy.copy": copy.copy, "copy.deepcopy": copy.deepcopy, ".copy()": lambda q: q.copy()}[case["how"]](p)
            probs = same_exact(p, r)
            return str(probs) if probs else None
        if case["kind"] == "textfile":
            run_textfile(ctx, make_rng(ctx.seed, "C13/textfile"), 150)
            return ctx.failures[n]["what"] if len(ctx.failures) > n else None
        run_text(ctx, make_rng(ctx.seed, "C13/text"), 250, Monitor(), tmp)
        run_plain(ctx, make_rng(ctx.seed, "C13/plain"), 40, tmp)
    return ctx.failures[n]["what"] if len(ctx.failures) > n else None

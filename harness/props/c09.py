"""C09 - shape functions and indexing move whole polynomial elements like numpy."""
from __future__ import annotations

import itertools

from ..core import (numpy, numpoly, run_driver, poly_to_struct, den_of_struct, den_key, err_kind, wf_problems, Monitor)
from .. import gen

RULE = ("polynomial arrays of 0-3 dimensions (incl. size-1 axes, single-row matrices, transposed views) x the listed "
        "functions with their shape/axis/index/section arguments (grids over all valid axes on the generated shape); "
        "the expected placement is obtained by running the *same numpy function on index arrays* (value-independent "
        "rearrangement), the Lean model gathers every coefficient column through that index map (gather_denAt holds "
        "for every map); joining functions get operands with differing name and term sets. Checked: shape, every "
        "element, names, dtype. non-trivial = the result has >= 2 elements and the operand >= 2 non-zero terms")


def P(rng, shape, names=None, kind=None, view=True):
    s = gen.gen_struct(rng, names=names, shape=shape, kind=kind or gen.choice(rng, ["int", "float"], p=[.8, .2]),
                       nterms=int(rng.integers(1, 5)), zero_prob=.15)
    s["as"] = "poly_T" if view and len(shape) >= 2 and rng.random() < .2 else "poly"
    return s


def twin(rng, s, shape):
    """an operand over the same names and the same exponent rows as `s`, stored in another row order, with its own
    coefficients (what numpoly.monomial(...) next to an arithmetic result looks like)"""
    size = int(numpy.prod(shape, dtype=int))
    rows = [list(t[0]) for t in s["terms"]]
    order = [int(x) for x in rng.permutation(len(rows))]
    if len(rows) >= 2 and order == list(range(len(rows))):
        order = order[::-1]
    t = dict(s, shape=list(shape), terms=[[rows[k], [int(rng.integers(-3, 4)) for _ in range(size)]] for k in order])
    t["as"] = "poly"
    return t


def index_arrays(structs):
    """1-based global indices into the concatenated operand space, one array per operand"""
    out, off = [], 0
    for s in structs:
        n = int(numpy.prod(s["shape"], dtype=int))
        idx = numpy.arange(off + 1, off + n + 1).reshape(tuple(s["shape"]))
        if s.get("as") == "poly_T":
            idx = numpy.ascontiguousarray(idx.T).T      # same memory layout as the transposed view handed to numpoly
        out.append(idx)
        off += n
    return out


def shapes(rng, lo=0, hi=3):
    pool = [(), (1,), (2,), (3,), (4,), (1, 3), (2, 2), (2, 3), (3, 1), (1, 1), (2, 1, 2), (1, 2, 3), (2, 2, 2), (2, 3, 1)]
    return gen.choice(rng, [s for s in pool if lo <= len(s) <= hi])


def functions():
    """name -> rng -> (operand structs, impl(objs), numpy(index arrays))"""
    F = {}

    def one(name, mk):
        F[name] = mk

    def reshape(r):
        sh = shapes(r, 1)
        n = int(numpy.prod(sh))
        targets = [t for t in [(n,), (1, n), (n, 1), (-1,), (2, -1), (-1, 2), (3, -1), (2, 2, -1)] if numpy.prod([x for x in t if x > 0]) and n % int(numpy.prod([x for x in t if x > 0])) == 0]
        t = gen.choice(r, targets)
        how = gen.choice(r, ["function", "method", "numpy"])
        order = gen.choice(r, ["C", "F", "A", "A"])
        f = {"function": lambda a: numpoly.reshape(a, t, order=order), "method": lambda a: a.reshape(t, order=order),
             "numpy": lambda a: numpy.reshape(a, t, order=order)}[how]
        if how != "method" and r.random() < .3:
            # `order` handed over positionally, numpy's third positional parameter (seeded change C09-11)
            how = how + "-positional-order"
            M = numpoly if how.startswith("function") else numpy
            f = lambda a: M.reshape(a, t, order)
        # index arrays get the memory layout of the operand (order="A" reads it): transposed views are F-contiguous
        a = P(r, sh)
        if len(sh) >= 2 and r.random() < .5:
            a["as"] = "poly_T"       # a transposed (Fortran-contiguous) view: order="A" then reads in Fortran order
        return [a], f, lambda i: numpy.reshape(i, t, order=order), {"to": t, "how": how, "order": order}
    one("reshape", reshape)

    def transpose(r):
        sh = shapes(r, 1)
        axes = None if r.random() < .4 else tuple(int(x) for x in r.permutation(len(sh)))
        return [P(r, sh)], lambda a: numpoly.transpose(a, axes), lambda i: numpy.transpose(i, axes), {"axes": axes}
    one("transpose", transpose)
    one(".T", lambda r: (lambda sh: ([P(r, sh)], lambda a: a.T, lambda i: i.T, {}))(shapes(r)))

    def moveaxis(r):
        sh = shapes(r, 2)
        s, d = int(r.integers(-len(sh), len(sh))), int(r.integers(-len(sh), len(sh)))
        if r.random() < .5:
            # sequences of axes, destinations in any order, negative spellings (seeded change C09-13: the permutation was
            # built from the pairs in the order given instead of sorted by destination)
            k = int(r.integers(1, len(sh) + 1))
            s = [int(x) for x in r.permutation(len(sh))[:k]]
            d = [int(x) for x in r.permutation(len(sh))[:k]]
            if r.random() < .3:
                s = [x - len(sh) if r.random() < .5 else x for x in s]
                d = [x - len(sh) if r.random() < .5 else x for x in d]
            if r.random() < .3:
                s, d = tuple(s), tuple(d)
        return [P(r, sh)], lambda a: numpoly.moveaxis(a, s, d), lambda i: numpy.moveaxis(i, s, d), {"source": s, "dest": d}
    one("moveaxis", moveaxis)

    def expand_dims(r):
        sh = shapes(r, 0, 2)
        ax = int(r.integers(-len(sh) - 1, len(sh) + 1))
        return [P(r, sh)], lambda a: numpoly.expand_dims(a, ax), lambda i: numpy.expand_dims(i, ax), {"axis": ax}
    one("expand_dims", expand_dims)
    for nm in ("atleast_1d", "atleast_2d", "atleast_3d"):
        def atleast(r, nm=nm):
            # one or several arguments (each keeps its own indeterminates and shape), either spelling
            k = int(gen.choice(r, [1, 1, 2, 3]))
            ops = [P(r, shapes(r), names=gen.gen_names(r, 1, 2)) for _ in range(k)]
            M = numpy if r.random() < .3 else numpoly
            return ops, lambda *a: getattr(M, nm)(*a), lambda *i: getattr(numpy, nm)(*i), {"arguments": k, "how": M.__name__}
        one(nm, atleast)

    def repeat(r):
        sh = shapes(r)
        ax = None if (not sh or r.random() < .3) else int(r.integers(-len(sh), len(sh)))
        k = int(r.integers(1, 4))
        if r.random() < .2:     # the axis argument left out: numpy then repeats the flattened array
            return [P(r, sh)], lambda a: numpoly.repeat(a, k), lambda i: numpy.repeat(i, k), {"repeats": k, "axis": "omitted"}
        M = numpy if r.random() < .4 else numpoly
        return [P(r, sh)], lambda a: M.repeat(a, k, axis=ax), lambda i: numpy.repeat(i, k, axis=ax), {"repeats": k, "axis": ax, "how": M.__name__}
    one("repeat", repeat)

    def tile(r):
        sh = shapes(r)
        reps = gen.choice(r, [1, 2, (2,), (1, 2), (2, 1), (2, 1, 1)])
        return [P(r, sh)], lambda a: numpoly.tile(a, reps), lambda i: numpy.tile(i, reps), {"reps": reps}
    one("tile", tile)

    def join(name, minnd, fixed_axis=None):
        def mk(r):
            sh = shapes(r, minnd)
            k = int(r.integers(1, 4))       # a sequence holding a single operand is a valid call too
            if fixed_axis is None and name in ("concatenate", "stack"):
                ax = int(r.integers(-len(sh) - (1 if name == "stack" else 0), len(sh) + (1 if name == "stack" else 0))) if sh or name == "stack" else 0
            else:
                ax = None
            ops = []
            twins = r.random() < .4
            for _ in range(k):
                s2 = list(sh)
                if name == "concatenate" and sh:
                    s2[ax] = int(r.integers(1, 3))
                if twins and ops and ops[0]["kind"] == "int":
                    t = twin(r, ops[0], tuple(s2))
                    if r.random() < .5:
                        # a renamed twin: the same exponent rows (hence the same storage keys) over another name tuple of the
                        # same length - (q0,) next to (q1,), (q0, q1) next to (q0, q2) (seeded change C09-14: a join that
                        # skipped the alignment of operands whose keys agree)
                        shift = int(r.integers(1, 3))
                        t["names"] = [n + shift for n in t["names"]] if r.random() < .5 else t["names"][:-1] + [t["names"][-1] + shift]
                        if r.random() < .8:
                            t["terms"] = sorted(t["terms"], key=lambda u: u[0])
                            ops[0]["terms"] = sorted(ops[0]["terms"], key=lambda u: u[0])
                    ops.append(t)
                else:
                    ops.append(P(r, tuple(s2), names=gen.gen_names(r, 1, 3), kind="int" if twins else None))
            # either spelling: numpoly.<name> or numpy.<name> (dispatch through __array_function__)
            M = numpy if r.random() < .35 else numpoly
            how = M.__name__
            if ax is None:
                return ops, lambda *a: getattr(M, name)(list(a)), lambda *i: getattr(numpy, name)(list(i)), {"operands": k, "how": how}
            if name == "concatenate" and r.random() < .2:
                # axis=None (passed explicitly): the operands are flattened first
                return ops, lambda *a: getattr(M, name)(list(a), axis=None), lambda *i: numpy.concatenate(list(i), axis=None), {"operands": k, "axis": "None", "how": how}
            return ops, lambda *a: getattr(M, name)(list(a), axis=ax), lambda *i: getattr(numpy, name)(list(i), axis=ax), {"operands": k, "axis": ax, "how": how}
        return mk
    one("concatenate", join("concatenate", 1))
    one("stack", join("stack", 0))
    one("hstack", join("hstack", 1, True))
    one("vstack", join("vstack", 0, True))
    one("dstack", join("dstack", 0, True))

    def split(name):
        def mk(r):
            if name == "hsplit":
                sh = gen.choice(r, [(4,), (2, 4), (1, 2, 2)])
            elif name == "vsplit":
                sh = gen.choice(r, [(4, 2), (2, 3), (4, 1, 2)])
            elif name == "dsplit":
                sh = gen.choice(r, [(1, 2, 4), (2, 1, 2)])
            else:
                sh = gen.choice(r, [(4,), (6,), (4, 2), (2, 4)])
            sec = gen.choice(r, [2, [1], [1, 3]]) if name != "array_split" else gen.choice(r, [2, 3, [1, 2]])
            if name in ("split", "array_split"):
                ax = int(r.integers(0, len(sh)))
                if name == "split" and isinstance(sec, int) and sh[ax] % sec:
                    sec = 1
                return [P(r, sh)], lambda a: getattr(numpoly, name)(a, sec, axis=ax), lambda i: getattr(numpy, name)(i, sec, axis=ax), {"sections": sec, "axis": ax}
            return [P(r, sh)], lambda a: getattr(numpoly, name)(a, sec), lambda i: getattr(numpy, name)(i, sec), {"sections": sec}
        return mk
    for nm in ("split", "array_split", "hsplit", "vsplit", "dsplit"):
        one(nm, split(nm))

    def diag(r):
        sh = gen.choice(r, [(1,), (3,), (2, 2), (1, 3), (3, 1), (2, 3), (3, 3)])
        k = int(r.integers(-1, 2))
        return [P(r, sh)], lambda a: numpoly.diag(a, k=k), lambda i: numpy.diag(i, k=k), {"k": k}
    one("diag", diag)

    def diagonal(r):
        sh = gen.choice(r, [(2, 2), (1, 3), (3, 1), (2, 3), (2, 2, 2), (1, 2, 3)])
        off = int(r.integers(-1, 2))
        if len(sh) == 3 and r.random() < .5:
            a1, a2 = gen.choice(r, [(0, 1), (0, 2), (1, 2), (2, 0)])
        else:
            a1, a2 = 0, 1
        how = gen.choice(r, ["function", "method"])
        return [P(r, sh)], (lambda a: numpoly.diagonal(a, offset=off, axis1=a1, axis2=a2)) if how == "function" else (lambda a: a.diagonal(off, a1, a2)), \
            lambda i: numpy.diagonal(i, offset=off, axis1=a1, axis2=a2), {"offset": off, "axis1": a1, "axis2": a2, "how": how}
    one("diagonal", diagonal)

    def broadcast_arrays(r):
        sa, sb = gen.gen_shape_pair(r)
        return [P(r, sa, names=gen.gen_names(r, 1, 2)), P(r, sb, names=gen.gen_names(r, 1, 2))], \
            lambda a, b: numpoly.broadcast_arrays(a, b), lambda i, j: numpy.broadcast_arrays(i, j), {}
    one("broadcast_arrays", broadcast_arrays)

    def where(r):
        sa, sb = gen.gen_shape_pair(r)
        common = numpy.broadcast_shapes(sa, sb)
        cshape = gen.sub_shape(r, common)
        if r.random() < .3:
            # the condition takes part in the broadcast: it may have more axes than both operands, also with one element
            cshape = (1,) * int(r.integers(1, 3)) + (tuple(cshape) if r.random() < .5 else ())
        cond = (r.random(cshape) < .5)
        a = P(r, sa, names=gen.gen_names(r, 1, 2), kind="int")
        b = twin(r, a, sb) if r.random() < .35 else P(r, sb, names=gen.gen_names(r, 1, 2), kind="int")
        M = numpy if r.random() < .3 else numpoly
        return [a, b], lambda a, b: M.where(cond, a, b), lambda i, j: numpy.where(cond, i, j), {"condition": cond.tolist(), "how": M.__name__}
    one("where", where)

    def choose(r):
        sh = gen.choice(r, [(3,), (2, 2), (4,)])
        k = int(r.integers(2, 4))
        sel = r.integers(0, k, size=sh)
        ops = [P(r, sh, names=gen.gen_names(r, 1, 2)) for _ in range(k)]
        if r.random() < .35:
            # selectors outside [0, n): numpy's modes decide (clip maps negatives to 0, wrap takes them modulo n, raise
            # rejects them) - never "count from the end" (seeded change C09-12)
            mode = gen.choice(r, ["clip", "wrap", "raise"])
            sel = r.integers(-2, k + 2, size=sh)
            return ops, lambda *a: numpoly.choose(sel, list(a), mode=mode), lambda *i: numpy.choose(sel, list(i), mode=mode), \
                {"selector": sel.tolist(), "mode": mode}
        if r.random() < .15:
            # a 0-d selector over 0-d choices (D52)
            ops = [P(r, (), names=gen.gen_names(r, 1, 2)) for _ in range(k)]
            sel0 = int(r.integers(0, k))
            selv = gen.choice(r, [sel0, numpy.array(sel0), numpy.int64(sel0)])
            return ops, lambda *a: numpoly.choose(selv, list(a)), lambda *i: numpy.choose(selv, list(i)), {"selector": sel0, "choices": "0-d"}
        if r.random() < .25:
            # choices of different shapes broadcast against each other and the selector (D51), also a 0-d selector (D52)
            ops = [P(r, sh, names=gen.gen_names(r, 1, 2)), P(r, (), names=gen.gen_names(r, 1, 2))] + ([P(r, sh[-1:], names=gen.gen_names(r, 1, 2))] if k == 3 else [])
            sel = r.integers(0, len(ops), size=sh if r.random() < .7 else ())
            return ops, lambda *a: numpoly.choose(sel, list(a)), lambda *i: numpy.choose(sel, list(i)), {"selector": sel.tolist(), "choices": "mixed shapes"}
        return ops, lambda *a: numpoly.choose(sel, list(a)), lambda *i: numpy.choose(sel, list(i)), {"selector": sel.tolist()}
    one("choose", choose)

    def full(r):
        sh = shapes(r, 1)
        # a one-dimensional shape may be given as a bare (Python or numpy) integer (D48)
        arg = sh if len(sh) != 1 or r.random() < .4 else gen.choice(r, [sh[0], numpy.int64(sh[0]), [sh[0]]])
        return [P(r, ())], lambda f: numpoly.full(arg, f), lambda i: numpy.full(arg, i), {"shape": repr(arg)}
    one("full", full)

    def full_like(r):
        sh = shapes(r)
        kind = gen.choice(r, ["int", "float"])      # same coefficient kind: full_like casts the fill value to a's dtype
        if r.random() < .35:
            # the shape= override, as tuple or bare integer (D49)
            new = gen.choice(r, [3, numpy.int64(2), (2, 2), (1,), ()])
            return [P(r, sh, kind=kind), P(r, (), kind=kind)], lambda a, f: numpoly.full_like(a, f, shape=new), \
                lambda i, j: numpy.full_like(i, j, shape=new), {"shape": repr(new)}
        return [P(r, sh, kind=kind), P(r, (), kind=kind)], lambda a, f: numpoly.full_like(a, f), lambda i, j: numpy.full_like(i, j), {}
    one("full_like", full_like)

    def getitem(r):
        sh = shapes(r, 1)
        choices = []
        n0 = sh[0]
        choices += [0, -1, slice(None, None, -1), slice(1, None), slice(None, None, 2), Ellipsis, numpy.newaxis,
                    numpy.array([0, n0 - 1, 0]), numpy.arange(n0) % 2 == 0, [0]]
        if len(sh) >= 2:
            n1 = sh[1]
            choices += [(0, 0), (slice(None), 0), (Ellipsis, -1), (slice(None), slice(None, None, -1)), (0, Ellipsis),
                        (numpy.array([0, n0 - 1]), numpy.array([0, n1 - 1])), (slice(None), numpy.array([n1 - 1, 0])),
                        (numpy.newaxis, slice(None), 0), (slice(None), numpy.newaxis)]
        if len(sh) == 3:
            choices += [(0, slice(None), -1), (Ellipsis, 0, 0), (slice(None), 0, slice(None, None, -1)), (numpy.array([0]), slice(None), numpy.array([0]))]
            # advanced parts separated by a slice / Ellipsis / None: numpy moves the broadcast axes to the front (seeded
            # change C09-10: one indexing step on the stacked coefficients puts them before the term axis)
            n2 = sh[2]
            sep = [(0, slice(None), [0, n2 - 1]), ([0, n0 - 1], slice(None), [0, n2 - 1]), (0, Ellipsis, [n2 - 1, 0]),
                   ([n0 - 1], None, slice(None), [0]), ([0, n0 - 1], slice(None), 0), ([[0], [n0 - 1]], slice(None), [0, n2 - 1]),
                   (numpy.array([n0 - 1, 0, 0]), slice(0, 1), numpy.array([0, 0, n2 - 1]))]
            if r.random() < .5:
                choices = sep
        ix = choices[int(r.integers(len(choices)))]
        return [P(r, sh)], lambda a: a[ix], lambda i: i[ix], {"index": repr(ix)}
    one("getitem", getitem)

    def getitem_general(r):
        # any index tuple numpy accepts: integers, stepped slices, newaxis, ellipsis, integer arrays and boolean masks mixed
        sh = shapes(r, 1)
        for _ in range(20):
            ix = random_key(r, sh, bad=0.)
            if any(isinstance(it, numpy.ndarray) for it in ix):
                break
        return [P(r, sh)], lambda a: a[ix], lambda i: i[ix], {"index": repr(ix)}
    one("getitem_general", getitem_general)
    one("iteration", lambda r: (lambda sh: ([P(r, sh)], lambda a: list(a), lambda i: list(i), {}))(shapes(r, 1)))
    one("ravel", lambda r: (lambda sh: ([P(r, sh)], lambda a: a.ravel(), lambda i: i.ravel(), {}))(shapes(r)))
    one("flatten", lambda r: (lambda sh: ([P(r, sh)], lambda a: a.flatten(), lambda i: i.flatten(), {}))(shapes(r)))
    return F


SLICE_POOL = [slice(None), slice(None, None, -1), slice(1, None), slice(None, -1), slice(None, None, 2), slice(-1, None, -2),
              slice(2, 1), slice(0, 1)]


def random_key(grng, sh, bad=.1):
    """a random general index tuple for an operand of shape `sh`: integers, slices with steps, newaxis, one ellipsis, integer
    arrays (0-d to 2-d, also empty) and boolean masks over one or two axes; with probability ~`bad` an entry is out of range"""
    nd = len(sh)
    items, ax, used_ell = [], 0, False
    while ax < nd and len(items) < nd + 2:
        u = grng.random()
        if u < .08:
            items.append(None)
        elif u < .14 and not used_ell:
            items.append(Ellipsis); used_ell = True
            ax += int(grng.integers(0, nd - ax + 1))
        elif u < .30:
            d = sh[ax]; ax += 1
            items.append(int(grng.integers(-d, d)) if grng.random() >= bad else int(d + grng.integers(0, 2)))
        elif u < .50:
            items.append(SLICE_POOL[int(grng.integers(len(SLICE_POOL)))]); ax += 1
        elif u < .80:
            d = sh[ax]; ax += 1
            ish = [(), (2,), (1,), (2, 1), (1, 2), (3,), (0,)][int(grng.integers(7))]
            lo, hi = (-d, d) if grng.random() >= bad else (-d - 1, d + 1)
            items.append(grng.integers(lo, hi, size=ish))
        else:
            k = int(grng.integers(1, min(2, nd - ax) + 1))
            msh = tuple(sh[ax:ax + k]) if grng.random() >= bad else tuple(d + 1 for d in sh[ax:ax + k])
            items.append(grng.random(size=msh) < .5); ax += k
        if grng.random() < .15:
            break
    return tuple(items)


def flatten_results(res):
    if isinstance(res, (list, tuple)):
        return list(res)
    return [res]


def run_one(ctx, name, mk, rng, idx, monitor, pending):
    structs, impl, npf, info = mk(rng)
    case = {"kind": "c09", "function": name, "operands": structs, "args": {k: (v if isinstance(v, (int, float, str, bool, type(None), list)) else repr(v)) for k, v in info.items()}, "seed_index": idx}
    tags = [f"function:{name}"] + (["default-axis"] if info.get("axis") == "omitted" else [])
    iarrs = index_arrays(structs)
    try:
        expect = flatten_results(npf(*iarrs))
    except Exception as err:  # noqa: BLE001
        ctx.count("numpy-rejects-arguments")
        return
    objs = [gen.materialize(s, s.get("as", "poly")) for s in structs]
    ctx.evaluations += 1
    ctx.count(f"function={name}")
    try:
        with monitor.watch(f"C09:{name}", *objs):
            got = flatten_results(impl(*objs))
    except Exception as err:  # noqa: BLE001
        ctx.fail(case, f"{name}{info} raised {type(err).__name__}: {str(err)[:150]} where numpy succeeds on the same arguments", tags + [f"raises:{err_kind(err)}"])
        return
    if len(got) != len(expect):
        ctx.fail(case, f"{name}{info} returned {len(got)} arrays, numpy returns {len(expect)}", tags + ["count"])
        return
    names_in = sorted({n for s in structs for n in s["names"]})
    dtype_in = str(numpy.result_type(*[numpy.dtype(s["dtype"]) for s in structs]))
    for k, (g, e) in enumerate(zip(got, expect)):
        e = numpy.asarray(e)
        # functions returning one output per argument keep each argument's own dtype (and names)
        per_argument = name == "broadcast_arrays" or (name.startswith("atleast_") and len(structs) > 1)
        dt = structs[k]["dtype"] if per_argument else dtype_in
        pending.append((case, tags, k, g, e, structs, names_in, dt, info))


def settle(ctx, pending):
    drv = []
    for n, (case, tags, k, g, e, structs, names_in, dtype_in, info) in enumerate(pending):
        drv.append({"id": n, "op": "gather", "opts": {"retain_coefficients": False, "retain_names": True},
                    "polys": [{kk: s[kk] for kk in ("names", "shape", "terms")} for s in structs],
                    "shape": list(e.shape), "index": [int(x) for x in e.ravel()]})
    answers = run_driver(drv)
    for (case, tags, k, g, e, structs, names_in, dtype_in, info), model in zip(pending, answers):
        name = case["function"]
        if not isinstance(g, numpoly.ndpoly):
            ctx.fail(case, f"{name}: output {k} is {type(g).__name__}, not a polynomial array", tags + ["type"])
            continue
        s = poly_to_struct(g)
        dm = den_of_struct(model)
        if e.size >= 2 and sum(len(x["terms"]) for x in structs) >= 2:
            ctx.nontrivial_add((name, case["seed_index"], k))
        if wf_problems(g):
            ctx.fail(case, f"{name}: output {k} not well-formed: {wf_problems(g)}", tags + ["wf"])
        elif s["shape"] != list(e.shape):
            ctx.fail(case, f"{name}{info}: output {k} has shape {s['shape']}, numpy produces {list(e.shape)}", tags + ["shape"])
        elif den_of_struct(s) != dm:
            ctx.fail(case, f"{name}{info}: output {k} is {den_key(den_of_struct(s))[:200]}; numpy places the elements as {den_key(dm)[:200]}", tags + ["value"])
        elif not set(n for m in dm for n, _ in m) <= set(s["names"]) or (len(structs) == 1 and s["names"] != structs[0]["names"]) \
                or (name.startswith("atleast_") and len(structs) > 1 and s["names"] != structs[k]["names"]):
            ctx.fail(case, f"{name}: names {s['names']} of output {k} are not the operand's {structs[k if len(structs) > 1 else 0]['names']}", tags + ["names"])
        elif s["dtype"] != dtype_in:
            ctx.fail(case, f"{name}: dtype {s['dtype']} != {dtype_in}", tags + ["dtype"])
    del pending[:]


def run_model_shapefns(ctx):
    """numpy's index arithmetic for the shape functions is part of the model (Np/Model/ShapeFns.lean, characterised in
    multi-index terms by the theorems of Np/Proofs/ShapeFns.lean): on a grid of shapes and arguments the model's output
    shape and gather list must be what the numpy function does to an array of positions. A disagreement is an error of
    the model (RuntimeError), not a finding about the implementation."""
    import itertools
    shapes = [(), (1,), (3,), (2, 3), (3, 1), (2, 1, 3), (2, 2, 2)]
    reqs, wants = [], []

    def ids(sh, base=0):
        return (numpy.arange(int(numpy.prod(sh, dtype=int))) + base).reshape(sh)

    def one(req, f, sh):
        try:
            out = f(ids(sh))
        except Exception:  # noqa: BLE001
            want = None
        else:
            out = numpy.asarray(out)
            want = (list(out.shape), [int(x) for x in out.ravel()])
        reqs.append(dict(req, op="shapefn", shape=list(sh), id=len(reqs)))
        wants.append(want)

    def many(req, f, shs):
        try:
            out = numpy.asarray(f([ids(sh, 1000 * o) for o, sh in enumerate(shs)]))
            want = (list(out.shape), [[int(x) // 1000, int(x) % 1000] for x in out.ravel()])
        except Exception:  # noqa: BLE001
            want = None
        reqs.append(dict(req, op="shapefn", shapes=[list(sh) for sh in shs], id=len(reqs)))
        wants.append(want)

    for sh in shapes:
        nd = len(sh)
        for perm in itertools.permutations(range(nd)):
            one({"fn": "transpose", "perm": list(perm)}, lambda a, perm=perm: numpy.transpose(a, perm), sh)
        if nd:
            one({"fn": "transpose", "perm": [0] * nd}, lambda a: numpy.transpose(a, [0] * nd), sh)      # not a permutation
        for a_, b_ in itertools.product(range(nd + 1), repeat=2):
            one({"fn": "moveaxis", "src": a_, "dst": b_}, lambda a, a_=a_, b_=b_: numpy.moveaxis(a, a_, b_), sh)
            one({"fn": "swapaxes", "a": a_, "b": b_}, lambda a, a_=a_, b_=b_: numpy.swapaxes(a, a_, b_), sh)
        # moveaxis with sequences of axes: every pair of equally long duplicate-free sequences, and a few that numpy rejects
        for k in range(0, nd + 1):
            for src in itertools.permutations(range(nd), k):
                for dst in itertools.permutations(range(nd), k):
                    if nd == 3 and k == 3 and (sum(src) + 2 * sum(i * d for i, d in enumerate(dst))) % 3:
                        continue        # a third of the 36 full permutation pairs is enough
                    one({"fn": "moveaxis_seq", "src": list(src), "dst": list(dst)}, lambda a, src=src, dst=dst: numpy.moveaxis(a, src, dst), sh)
        if nd >= 2:
            for src, dst in (([0, 0], [0, 1]), ([0, 1], [1, 1]), ([0], [0, 1]), ([0, nd], [1, 0]), ([0, 1], [0, nd])):
                one({"fn": "moveaxis_seq", "src": src, "dst": dst}, lambda a, src=src, dst=dst: numpy.moveaxis(a, src, dst), sh)
        for ax in range(nd + 2):
            one({"fn": "expand_dims", "axis": ax}, lambda a, ax=ax: numpy.expand_dims(a, ax), sh)
            for k in (1, 2, 3) if nd else ():       # numpy.repeat treats a 0-d operand as 1-d; repeatF requires axis < ndim
                one({"fn": "repeat", "k": k, "axis": ax}, lambda a, ax=ax, k=k: numpy.repeat(a, k, axis=ax), sh)
        for new in [(6,), (3, 2), (1, 6), (2, 3, 1), (1,), (), (3,), (8,), (4, 2), (2, 2, 2), (1, 3)]:
            one({"fn": "reshape", "newshape": list(new)}, lambda a, new=new: numpy.reshape(a, new), sh)
        for reps in [(2,), (1, 2), (2, 1, 1), (2, 2), (1,), (3, 1, 1, 1)]:
            one({"fn": "tile", "reps": list(reps)}, lambda a, reps=reps: numpy.tile(a, reps), sh)
        for off in (-2, -1, 0, 1, 2):
            for a1, a2 in itertools.product(range(nd + 1), repeat=2):
                one({"fn": "diagonal", "offset": off, "ax1": a1, "ax2": a2},
                    lambda a, off=off, a1=a1, a2=a2: numpy.diagonal(a, off, a1, a2), sh)
        for ax in range(nd + 2):
            many({"fn": "stack", "axis": ax}, lambda xs, ax=ax: numpy.stack(xs, axis=ax), [sh])
            many({"fn": "stack", "axis": ax}, lambda xs, ax=ax: numpy.stack(xs, axis=ax), [sh, sh, sh])
            many({"fn": "concatenate", "axis": ax}, lambda xs, ax=ax: numpy.concatenate(xs, axis=ax), [sh, sh])
            if nd and ax < nd:
                other = tuple(2 * d if i == ax else d for i, d in enumerate(sh))
                many({"fn": "concatenate", "axis": ax}, lambda xs, ax=ax: numpy.concatenate(xs, axis=ax), [sh, other, sh])
                bad = tuple(d + 1 for d in sh)
                many({"fn": "concatenate", "axis": ax}, lambda xs, ax=ax: numpy.concatenate(xs, axis=ax), [sh, bad])
        many({"fn": "stack", "axis": 0}, lambda xs: numpy.stack(xs, axis=0), [sh, tuple(sh) + (1,)])
    # ---- basic indexing, split family, diag, atleast_nd, broadcast_to (Np/Model/IndexFns.lean)
    def idx1(req, f, sh):
        try:
            out = numpy.asarray(f(ids(sh)))
            want = (list(out.shape), [int(x) for x in out.ravel()])
        except Exception:  # noqa: BLE001
            want = None
        reqs.append(dict(req, op="indexfn", shape=list(sh), id=len(reqs)))
        wants.append(want)

    def pieces(req, f, sh):
        try:
            outs = [numpy.asarray(o) for o in f(ids(sh))]
            want = ("pieces", [(list(o.shape), [int(x) for x in o.ravel()]) for o in outs])
        except Exception:  # noqa: BLE001
            want = None
        reqs.append(dict(req, op="indexfn", shape=list(sh), id=len(reqs)))
        wants.append(want)

    def item_json(it):
        if it is None:
            return "newaxis"
        if it is Ellipsis:
            return "ellipsis"
        if isinstance(it, slice):
            return {"slice": [it.start, it.stop, 1 if it.step is None else it.step]}
        return {"int": int(it)}

    irng = ctx.rng("model-index")
    item_pool = [0, 1, -1, -2, 2, 5, -7, slice(None), slice(None, None, -1), slice(1, None), slice(None, -1), slice(None, None, 2),
                 slice(-1, None, -2), slice(5, 1, -1), slice(1, 100), slice(-100, 2), slice(2, 1), slice(None, None, -3), None, Ellipsis]
    for sh in [(4,), (2, 3), (3, 1), (2, 1, 3), (2, 2, 2), (5,)]:
        for _ in range(40 if ctx.quick else 300):
            k = int(irng.integers(1, len(sh) + 3))
            items = tuple(item_pool[int(irng.integers(len(item_pool)))] for _ in range(k))
            idx1({"fn": "basic", "items": [item_json(it) for it in items]}, lambda a, items=items: a[items], sh)
        for ax in range(len(sh)):
            for secs in ([1], [1, 2], [0, 2], [2, 2], [1, 5], []):       # non-decreasing cut points (the model's domain)
                pieces({"fn": "split", "axis": ax, "sections": secs}, lambda a, ax=ax, secs=secs: numpy.split(a, secs, axis=ax), sh)
            for k in (1, 2, 3, 4):
                pieces({"fn": "array_split", "axis": ax, "k": k}, lambda a, ax=ax, k=k: numpy.array_split(a, k, axis=ax), sh)
                pieces({"fn": "split_equal", "axis": ax, "k": k}, lambda a, ax=ax, k=k: numpy.split(a, k, axis=ax), sh)
        for d, f in ((1, numpy.atleast_1d), (2, numpy.atleast_2d), (3, numpy.atleast_3d)):
            idx1({"fn": "atleast", "d": d}, f, sh)
        for target in [(2, 3), (2, 2, 3), (3, 4), (4,), (2, 4), (1, 5), (2, 2, 2), (3, 3)]:
            idx1({"fn": "broadcast_to", "target": list(target)}, lambda a, target=target: numpy.broadcast_to(a, target), sh)
    for sh in [(3,), (1,), (2, 3), (3, 3), (3, 2), (2, 2, 2)]:
        for k in (-2, -1, 0, 1, 2):
            try:
                out = numpy.diag(ids(sh) + 1, k)
                want = ("fill", list(out.shape), [None if x == 0 else int(x) - 1 for x in out.ravel()])
            except Exception:  # noqa: BLE001
                want = None
            reqs.append({"op": "indexfn", "fn": "diag", "shape": list(sh), "k": k, "id": len(reqs)})
            wants.append(want)

    # ---- where / choose / full / hstack / vstack / dstack (Np/Model/SelectFns.lean)
    def sel(req, f, shs):
        try:
            out = numpy.asarray(f([ids(sh, 1000 * o) for o, sh in enumerate(shs)]))
            want = (list(out.shape), [[int(x) // 1000, int(x) % 1000] for x in out.ravel()])
        except Exception:  # noqa: BLE001
            want = None
        reqs.append(dict(req, op="selectfn", id=len(reqs)))
        wants.append(want)

    for sc, sx, sy in [((3,), (3,), (3,)), ((2, 1), (3,), ()), ((), (2,), (2, 2)), ((2, 3), (1, 3), (2, 1)), ((1, 1, 2), (2,), (2, 1)),
                       ((2,), (3,), (3,)), ((1,), (), ()), ((2, 2), (2,), (3,))]:
        for _ in range(3):
            cond = irng.random(sc) < .5
            sel({"fn": "where", "cond": [bool(x) for x in cond.ravel()], "sc": list(sc), "sx": list(sx), "sy": list(sy)},
                lambda xs, cond=cond: numpy.where(cond, xs[0], xs[1]), [sx, sy])
    for ss, shs in [((3,), [(3,), (3,)]), ((2, 2), [(2,), (2, 2), ()]), ((2,), [(2, 2), (1, 2)]), ((3,), [(2,), (3,)]), ((2,), [(2,)])]:
        for _ in range(3):
            selv = irng.integers(0, len(shs) + (1 if irng.random() < .2 else 0), size=ss)
            sel({"fn": "choose", "sel": [int(x) for x in selv.ravel()], "ss": list(ss), "shapes": [list(x) for x in shs]},
                lambda xs, selv=selv: numpy.choose(selv, xs), shs)
    for nm, f in (("hstack", numpy.hstack), ("vstack", numpy.vstack), ("dstack", numpy.dstack)):
        for shs in [[(3,), (3,)], [(2,), (3,)], [(), ()], [(2, 3), (2, 3)], [(2, 3), (3,)], [(2, 3), (2, 1)], [(1, 3), (2, 3)],
                    [(2, 1, 2), (2, 1, 2)], [(2,)], [(2, 2), (2, 2), (2, 2)], [(2, 3), (3, 2)], [(), (2,)]]:
            sel({"fn": nm, "shapes": [list(x) for x in shs]}, lambda xs, f=f: f(xs), shs)
    for shape, sv in [((2, 3), ()), ((2, 3), (3,)), ((2, 3), (2, 1)), ((2, 3), (1, 2, 3)), ((2, 3), (2,)), ((3,), (1, 1, 3)), ((2, 3), (2, 1, 3)), ((), ())]:
        try:
            out = numpy.full(shape, ids(sv))
            want = (list(out.shape), [int(x) for x in out.ravel()])
        except Exception:  # noqa: BLE001
            want = None
        reqs.append({"op": "selectfn", "fn": "full", "shape": list(shape), "sv": list(sv), "id": len(reqs)})
        wants.append(want)

    # ---- integer-array indexing, take, repeat with an array of counts (Np/Model/AdvIndexFns.lean)
    def ixj(a):
        a = numpy.asarray(a)
        return {"shape": list(a.shape), "data": [int(x) for x in a.ravel()]}

    for sh in [(4,), (2, 3), (2, 3, 4), (3, 1, 2)]:
        nd = len(sh)
        for _ in range(25 if ctx.quick else 200):
            items = []
            for d in sh[: int(irng.integers(1, nd + 1))]:
                if irng.random() < .4:
                    items.append(None)
                else:
                    ish = [(), (2,), (1,), (2, 1), (1, 2), (3,)][int(irng.integers(6))]
                    lo, hi = (-d, d) if irng.random() < .85 else (-d - 1, d + 1)
                    items.append(irng.integers(lo, hi, size=ish))
            if all(it is None for it in items):
                continue
            key = tuple(slice(None) if it is None else it for it in items)
            idx1({"fn": "mixed", "items": [None if it is None else ixj(it) for it in items]}, lambda a, key=key: a[key], sh)
            reqs[-1]["op"] = "advindexfn"
        for ax in range(nd):
            for ish in [(), (2,), (2, 2), (0,)]:
                ix = irng.integers(-sh[ax], sh[ax], size=ish)
                idx1({"fn": "take", "ix": ixj(ix), "axis": ax}, lambda a, ix=ix, ax=ax: numpy.take(a, ix, axis=ax), sh)
                reqs[-1]["op"] = "advindexfn"
            for reps in [[int(x) for x in irng.integers(0, 3, size=sh[ax])], [2], [1] * sh[ax], [0] * sh[ax], [1, 2]]:
                idx1({"fn": "repeats", "reps": reps, "axis": ax}, lambda a, reps=reps, ax=ax: numpy.repeat(a, reps, axis=ax), sh)
                reqs[-1]["op"] = "advindexfn"

    # ---- the general index expression: ints, slices with steps, newaxis, ellipsis, integer arrays and boolean masks in
    #      one tuple (Np/Model/GenIndexFns.lean); numpy's own result on an array of positions is the expectation
    def gitem_json(it):
        if it is None:
            return "newaxis"
        if it is Ellipsis:
            return "ellipsis"
        if isinstance(it, slice):
            return {"slice": [it.start, it.stop, 1 if it.step is None else it.step]}
        if isinstance(it, numpy.ndarray) and it.dtype == bool:
            return {"mask": {"shape": list(it.shape), "data": [bool(x) for x in it.ravel()]}}
        if isinstance(it, numpy.ndarray):
            return {"arr": ixj(it)}
        return {"int": int(it)}

    grng = ctx.rng("model-genindex")
    for sh in [(4,), (2, 3), (2, 3, 4), (3, 1, 2), (2, 2, 2, 2)]:
        for _ in range(40 if ctx.quick else 400):
            items = random_key(grng, sh)
            if not any(isinstance(it, numpy.ndarray) for it in items):
                continue
            key = tuple(items)
            idx1({"items": [gitem_json(it) for it in items]}, lambda a, key=key: a[key], sh)
            reqs[-1]["op"] = "genindexfn"
            ctx.count("model-genindex")

    bad = []
    for req, want, ans in zip(reqs, wants, run_driver(reqs)):
        ctx.count("model-shapefn")
        kind = ans.get("kind")
        if kind == "none":
            got = None
        elif kind == "pieces":
            got = ("pieces", [(list(q["shape"]), list(q["idx"])) for q in ans["pieces"]])
        elif kind == "gatherfill":
            got = ("fill", list(ans["shape"]), list(ans["idx"]))
        else:
            got = (list(ans["shape"]), [list(x) if isinstance(x, list) else x for x in ans["idx"]])
        if got != want:
            bad.append(f"{ {k: v for k, v in req.items() if k not in ('op', 'id')} }: model {str(got)[:120]}, numpy {str(want)[:120]}")
    if bad:
        raise RuntimeError(f"Np.ShapeFns and numpy disagree on {len(bad)} of {len(reqs)} cases:\n" + "\n".join(bad[:8]))
    ctx.extra["model_shapefn_cases"] = len(reqs)


def run(ctx):
    ctx.rule = RULE
    run_model_shapefns(ctx)
    rng = ctx.rng("cases")
    monitor = Monitor()
    F = functions()
    reps = 40 if ctx.quick else 500
    pending = []
    idx = 0
    for name, mk in F.items():
        for _ in range(reps):
            idx += 1
            run_one(ctx, name, mk, rng, idx, monitor, pending)
        settle(ctx, pending)
        if ctx.out_of_time():
            ctx.notes.append("stopped early: time budget")
            break
    # corpus: single-row diag / transposed reshape (earlier findings)
    ctx.extra["functions"] = sorted(F)
    ctx.extra["argument_monitor"] = {"calls": monitor.calls, "mutations": monitor.events[:5]}
    ctx.sample({"function": "diag", "operand_shape": [1, 3], "k": 0, "numpy_on_index_array": numpy.diag(numpy.arange(1, 4).reshape(1, 3)).tolist(),
                "meaning": "1-based positions of the operand elements; 0 = filled with zero"})


def replay(ctx, case):
    n = len(ctx.failures)
    from ..core import make_rng
    F = functions()
    # regenerate is not possible without the rng state; replay the stored operands with a fresh draw of the same function
    rng = make_rng(ctx.seed, "C09/replay")
    pending = []
    for i in range(200):
        run_one(ctx, case["function"], F[case["function"]], rng, i, Monitor(), pending)
    settle(ctx, pending)
    return ctx.failures[n]["what"] if len(ctx.failures) > n else None

"""C07 - comparison operators form one strict total order: universe matrices + random pairs vs the Lean model."""
from __future__ import annotations

import itertools
import operator
from fractions import Fraction

from ..core import (numpy, numpoly, run_driver, poly_to_struct, any_to_struct, den_of_struct, den_key, err_kind,
                    Monitor, coef_json)
from .. import gen

RULE = ("(a) a universe U of small polynomials over q0,q1,q2 (zero, constants, 1-2 terms from 7 monomials, coefficients "
        "+-1,+-2; |U| = 60 quick / 150 thorough, chosen by seed) compared as arrays U[:,None] op U[None,:], one call per "
        "operator and spelling, for all four sort_graded/sort_reverse settings: the six boolean matrices must equal the "
        "Lean model's and satisfy trichotomy, complements, antisymmetry, transitivity (checked on the matrices), "
        "== iff equal denotation; (b) random pairs with many same-degree terms and broadcasting shapes, incl. "
        "maximum/minimum. non-trivial = the pair differs in >= 1 monomial and both operands are non-constant")

MONOS = [(), ((0, 1),), ((1, 1),), ((0, 2),), ((0, 1), (1, 1)), ((1, 2),), ((2, 1),)]
COEFS = [-2, -1, 1, 2]
OPS = {"gt": operator.gt, "ge": operator.ge, "lt": operator.lt, "le": operator.le, "eq": operator.eq, "ne": operator.ne}
NPF = {"gt": "greater", "ge": "greater_equal", "lt": "less", "le": "less_equal", "eq": "equal", "ne": "not_equal"}


def universe(rng, size):
    polys = [{}]
    for m in MONOS:
        for c in COEFS:
            polys.append({m: c})
    two = []
    for m1, m2 in itertools.combinations(MONOS, 2):
        for c1 in COEFS:
            for c2 in COEFS:
                two.append({m1: c1, m2: c2})
    idx = rng.permutation(len(two))
    for i in idx[: max(0, size - len(polys))]:
        polys.append(two[int(i)])
    return polys[:size]


def dicts_to_struct(polys, shape):
    """list of {mono: coef} -> one record with names q0,q1,q2 and one column per occurring monomial"""
    names = [0, 1, 2]
    monos = sorted({m for p in polys for m in p}) or [()]     # no constant row unless some element has one
    terms = []
    for m in monos:
        e = [dict(m).get(n, 0) for n in names]
        terms.append([e, [coef_json(Fraction(p.get(m, 0))) for p in polys]])
    return {"names": names, "shape": list(shape), "dtype": "int64", "kind": "int", "terms": terms}


def bool_matrix(x, m):
    return numpy.asarray(x, dtype=bool).reshape(m, m)


def run_universe(ctx, monitor, constants=True):
    rng = ctx.rng("universe" if constants else "universe-no-constants")
    m = 60 if ctx.quick else 150
    U = universe(rng, m if constants else 4 * m)
    if not constants:
        # a universe whose elements store no constant-term row (storage row 0 is then not the lowest monomial)
        U = [u for u in U if () not in u and u][:m]
        m = len(U)
    sa = dicts_to_struct(U, (m, 1))
    sb = dicts_to_struct(U, (1, m))
    same = numpy.array([[U[i] == U[j] for j in range(m)] for i in range(m)])
    for graded in (True, False):
        for reverse in (False, True):
            opts = {"sort_graded": graded, "sort_reverse": reverse}
            drv = [{"id": rel, "op": "compare", "rel": rel, "opts": opts, "a": sa, "b": sb} for rel in OPS]
            model = {a["id"]: bool_matrix(a["value"], m) for a in run_driver(drv)}
            A, B = gen.materialize(sa), gen.materialize(sb)
            mats = {}
            with numpoly.global_options(**opts):
                for rel, pyop in OPS.items():
                    case = {"kind": "universe", "size": m, "seed": ctx.seed, "rel": rel, "opts": opts}
                    try:
                        with monitor.watch(f"C07:{rel}", A, B):
                            r_op = bool_matrix(pyop(A, B), m)
                            r_np = bool_matrix(getattr(numpy, NPF[rel])(A, B), m)
                    except Exception as err:  # noqa: BLE001
                        ctx.fail(case, f"{rel} raised {type(err).__name__}: {err}", ["universe", f"rel:{rel}", "raises"])
                        continue
                    ctx.evaluations += 2 * m * m
                    if not numpy.array_equal(r_op, r_np):
                        ctx.fail(case, f"operator and numpy.{NPF[rel]} disagree", ["universe", f"rel:{rel}", "spelling"])
                    if not numpy.array_equal(r_op, model[rel]):
                        i, j = map(int, numpy.argwhere(r_op != model[rel])[0])
                        ctx.fail(dict(case, a=U[i], b=U[j], pair=[i, j]),
                                 f"{U[i]} {rel} {U[j]}: implementation {bool(r_op[i, j])}, documented order (model) {bool(model[rel][i, j])}",
                                 ["universe", f"rel:{rel}", "value"])
                    mats[rel] = r_op
            if len(mats) == 6:
                laws(ctx, mats, same, U, opts)
            ctx.count(f"universe.graded={graded}.reverse={reverse}", m * m)
    for i, j in itertools.product(range(m), repeat=2):
        if U[i] != U[j] and len(U[i]) and len(U[j]) and (set(U[i]) | set(U[j])) != {()}:
            ctx.nontrivial_add(("u", i, j))
    ctx.sample({"op": "compare", "universe_size": m, "first_elements": [str(u) for u in U[:6]], "as": "U[:,None] vs U[None,:]"})


def laws(ctx, M, same, U, opts):
    gt, ge, lt, le, eq, ne = (M[k] for k in ("gt", "ge", "lt", "le", "eq", "ne"))
    case = {"kind": "laws", "opts": opts}

    def first(mask):
        i, j = map(int, numpy.argwhere(mask)[0])
        return f"a={U[i]} b={U[j]}"
    tri = gt.astype(int) + lt.astype(int) + eq.astype(int)
    if (tri != 1).any():
        ctx.fail(case, f"trichotomy fails: {first(tri != 1)}", ["laws", "trichotomy"])
    if (ge != ~lt).any() or (le != ~gt).any() or (ne != ~eq).any():
        ctx.fail(case, "<=, >=, != are not the complements of >, <, ==", ["laws", "complement"])
    if (gt & gt.T).any() or (gt != lt.T).any():
        ctx.fail(case, "antisymmetry / mirror symmetry fails", ["laws", "antisymmetry"])
    if (eq != same).any():
        ctx.fail(case, f"== differs from equality of the polynomials: {first(eq != same)}", ["laws", "equality"])
    comp = (gt.astype(int) @ gt.astype(int)) > 0
    if (comp & ~gt).any():
        ctx.fail(case, f"transitivity fails: {first(comp & ~gt)}", ["laws", "transitivity"])
    # constants order as numbers
    const = [i for i, u in enumerate(U) if set(u) <= {()}]
    for i in const:
        for j in const:
            if bool(gt[i, j]) != (U[i].get((), 0) > U[j].get((), 0)):
                ctx.fail(case, f"constants {U[i]} > {U[j]} ordered wrongly", ["laws", "constants"])
                return


def dense_struct(rng, shape, names, kind="int"):
    """many same-degree terms: all monomials of total degree d in the given names, random subset"""
    d = int(rng.integers(1, 4))
    rows = [e for e in itertools.product(range(d + 1), repeat=len(names)) if sum(e) in (d, d - 1)]
    rng.shuffle(rows)
    rows = sorted(rows[: int(rng.integers(1, 7))])
    size = int(numpy.prod(shape, dtype=int))
    terms = [[list(e), [coef_json(Fraction(0) if rng.random() < .3 else gen.gen_coef(rng, kind, 2)) for _ in range(size)]] for e in rows]
    return {"names": list(names), "shape": list(shape), "dtype": gen.KIND_DTYPE[kind], "kind": kind, "terms": terms}


def run_random(ctx, monitor):
    rng = ctx.rng("random")
    n = 400 if ctx.quick else 5000
    cases = []
    for i in range(n):
        sa_shape, sb_shape = gen.gen_shape_pair(rng)
        na, nb, rel_names = gen.gen_name_pair(rng)
        na, nb = na[:3], nb[:3]
        kind = gen.choice(rng, ["int", "float"], p=[.7, .3])
        mk = (lambda sh, nm: dense_struct(rng, sh, nm, kind)) if rng.random() < .6 else (lambda sh, nm: gen.gen_struct(rng, names=nm, shape=sh, kind=kind, lim=2))
        a, b = mk(sa_shape, na), mk(sb_shape, nb)
        if rng.random() < .15:
            b = gen.gen_const_struct(rng, shape=sb_shape, kind=kind)
            b["as"] = gen.choice(rng, ["ndarray", "scalar" if not sb_shape else "ndarray", "list"])
        if rng.random() < .15:
            # a "renamed twin": the same shape, exponent rows, coefficients and dtype over another name tuple of the
            # same length (q0 vs q1, (q0,q1) vs (q0,q2), ...): equal storage layout, different polynomials
            import copy
            b = copy.deepcopy(a)
            shift = int(rng.integers(1, 3))
            b["names"] = [n + shift for n in a["names"]] if rng.random() < .5 else a["names"][:-1] + [a["names"][-1] + shift]
            if rng.random() < .3:
                for t in b["terms"][:1]:
                    t[1] = [x + 1 if isinstance(x, int) else x for x in t[1]]
        elif kind == "float" and rng.random() < .4:
            # an "ulp twin": the same polynomial with one coefficient moved by 1-3 units in the last place; `==` holds
            # only for identical polynomials, and all six operators answer for the same order (seeded change C07-13: only
            # the `==` operator became tolerant)
            import copy
            from ..core import coef_from_json
            b = copy.deepcopy(a)
            b.pop("as", None)
            spots = [(t, j) for t in b["terms"] for j, x in enumerate(t[1]) if coef_from_json(x) != 0]
            if spots:
                t, j = spots[int(rng.integers(len(spots)))]
                x = float(coef_from_json(t[1][j]))
                for _ in range(int(rng.integers(1, 4))):
                    x = float(numpy.nextafter(x, numpy.inf if rng.random() < .5 else -numpy.inf))
                t[1][j] = coef_json(Fraction(x))
                if rng.random() < .5:
                    a, b = b, a
        opts = {"sort_graded": bool(rng.integers(2)), "sort_reverse": bool(rng.integers(2))}
        what = gen.choice(rng, list(OPS) + ["max", "min"])
        cases.append({"id": i, "kind": "pair", "what": what, "opts": opts, "a": a, "b": b})
    drv = []
    for c in cases:
        base = {"id": c["id"], "opts": dict(c["opts"], retain_coefficients=False, retain_names=True),
                "a": {k: c["a"][k] for k in ("names", "shape", "terms")}, "b": {k: c["b"][k] for k in ("names", "shape", "terms")}}
        if c["what"] in OPS:
            drv.append(dict(base, op="compare", rel=c["what"]))
        else:
            drv.append(dict(base, op="maxmin", which=c["what"]))
    answers = run_driver(drv)
    for c, ans in zip(cases, answers):
        replay_pair(ctx, c, ans, monitor)
    ctx.sample({"op": cases[0]["what"], "a": cases[0]["a"], "b": cases[0]["b"], "opts": cases[0]["opts"], "model": answers[0].get("value", answers[0].get("terms"))})


def run_dtypes(ctx, monitor):
    """narrow / unsigned / large coefficients: the verdict may not depend on differences fitting the dtype"""
    rng = ctx.rng("dtypes")
    n = 150 if ctx.quick else 1500
    cases = []
    for i in range(n):
        dt = gen.choice(rng, ["uint8", "int8", "uint16", "int64big", "uint64"])
        names = gen.gen_names(rng, 1, 2)
        shape = gen.choice(rng, [(), (2,), (3,)])
        size = int(numpy.prod(shape, dtype=int))
        rows = sorted({tuple(int(x) for x in rng.integers(0, 3, size=len(names))) for _ in range(3)})

        def val():
            if dt == "uint8":
                return int(gen.choice(rng, [0, 1, 3, 5, 200, 255]))
            if dt == "int8":
                return int(gen.choice(rng, [-128, -100, -1, 0, 1, 100, 127]))
            if dt == "uint16":
                return int(gen.choice(rng, [0, 1, 2, 40000, 65535]))
            if dt == "uint64":
                return int(gen.choice(rng, [0, 1, 2 ** 63, 2 ** 64 - 1, 5]))
            return int(gen.choice(rng, [-2 ** 62, 2 ** 62, -1, 0, 1, 2 ** 62 + 3, -2 ** 62 - 5]))
        def mk():
            return {"names": names, "shape": list(shape), "dtype": "int64" if dt == "int64big" else dt, "kind": "int", "as": "poly",
                    "terms": [[list(e), [val() for _ in range(size)]] for e in rows]}
        what = gen.choice(rng, ["gt", "lt", "ge", "le", "max", "min"])
        cases.append({"id": 10 ** 6 + i, "kind": "pair", "what": what, "opts": {"sort_graded": bool(rng.integers(2)), "sort_reverse": bool(rng.integers(2))}, "a": mk(), "b": mk(), "dtype": dt})
    drv = []
    for c in cases:
        base = {"id": c["id"], "opts": dict(c["opts"], retain_coefficients=False, retain_names=True),
                "a": {k: c["a"][k] for k in ("names", "shape", "terms")}, "b": {k: c["b"][k] for k in ("names", "shape", "terms")}}
        drv.append(dict(base, op="compare", rel=c["what"]) if c["what"] in OPS else dict(base, op="maxmin", which=c["what"]))
    for c, ans in zip(cases, run_driver(drv)):
        n0 = len(ctx.failures)
        replay_pair(ctx, c, ans, monitor)
        for f in ctx.failures[n0:]:
            f["tags"] = sorted(set(f["tags"]) | {f"dtype:{c['dtype']}"})
        ctx.count(f"dtype={c['dtype']}")


def replay_pair(ctx, c, ans, monitor=None):
    a = gen.materialize(c["a"], c["a"].get("as", "poly"))
    b = gen.materialize(c["b"], c["b"].get("as", "poly"))
    tags = ["pair", f"rel:{c['what']}"]
    ctx.evaluations += 1
    ctx.count(f"pair.{c['what']}")
    da, db = den_of_struct(c["a"]), den_of_struct(c["b"])
    if da != db and any(m for m in da) and any(m for m in db):
        ctx.nontrivial_add(("p", c["id"]))
    try:
        with numpoly.global_options(**c["opts"]):
            if monitor:
                with monitor.watch(f"C07:{c['what']}", a, b):
                    got = OPS[c["what"]](a, b) if c["what"] in OPS else getattr(numpoly, {"max": "maximum", "min": "minimum"}[c["what"]])(a, b)
            else:
                got = OPS[c["what"]](a, b) if c["what"] in OPS else getattr(numpoly, {"max": "maximum", "min": "minimum"}[c["what"]])(a, b)
    except Exception as err:  # noqa: BLE001
        if ans.get("status") == "err":
            return
        ctx.fail(c, f"{c['what']} raised {type(err).__name__}: {str(err)[:150]}", tags + [f"raises:{err_kind(err)}"])
        return
    if ans.get("status") == "err":
        ctx.fail(c, "implementation returned a value for shapes that do not broadcast", tags)
        return
    if c["what"] in OPS:
        g = numpy.asarray(got, dtype=bool)
        if list(g.shape) != ans["shape"] or g.ravel().tolist() != ans["value"]:
            ctx.fail(c, f"{c['what']}: implementation {g.ravel().tolist()} shape {list(g.shape)}, documented order {ans['value']} shape {ans['shape']}", tags + ["value"])
    else:
        s = any_to_struct(got)
        if s["shape"] != ans["shape"] or den_of_struct(s) != den_of_struct(ans):
            ctx.fail(c, f"{c['what']}: implementation {den_key(den_of_struct(s))[:200]}, model {den_key(den_of_struct(ans))[:200]}", tags + ["value"])


def run(ctx):
    ctx.rule = RULE
    monitor = Monitor()
    run_universe(ctx, monitor)
    run_universe(ctx, monitor, constants=False)
    run_random(ctx, monitor)
    run_dtypes(ctx, monitor)
    ctx.exhaustive = False
    ctx.extra["argument_monitor"] = {"calls": monitor.calls, "mutations": monitor.events[:5]}
    for ev in monitor.events[:3]:
        ctx.notes.append(f"argument mutated (C17 monitor): {ev}")


def replay(ctx, case):
    n = len(ctx.failures)
    if case.get("kind") == "pair":
        base = {"id": 0, "opts": dict(case["opts"], retain_coefficients=False, retain_names=True),
                "a": {k: case["a"][k] for k in ("names", "shape", "terms")}, "b": {k: case["b"][k] for k in ("names", "shape", "terms")}}
        drv = dict(base, op="compare", rel=case["what"]) if case["what"] in OPS else dict(base, op="maxmin", which=case["what"])
        replay_pair(ctx, case, run_driver([drv])[0])
    elif case.get("kind") in ("universe", "laws"):
        run_universe(ctx, Monitor())
    return ctx.failures[n]["what"] if len(ctx.failures) > n else None

"""C01 - ring arithmetic is exact: expression trees over + - neg pos * ** against the Lean model."""
from __future__ import annotations

import json
import operator

from ..core import (numpy, numpoly, any_to_struct, den_of_struct, den_key, run_driver, err_kind, time_limit,
                    Monitor, wf_problems, CaseTimeout)
from .. import gen

RULE = ("expression trees of depth 1-4 over {+,-,neg,pos,*,**k} with leaves from the C01 space (0-3-d shapes with "
        "size-1 broadcasting, 1-4 names from equal/overlapping/disjoint sets incl. q10 vs q2, 0-6 terms with zero "
        "columns, int/dyadic float/complex; ndarray/scalar/list leaves); non-trivial = the model's result has >= 2 "
        "non-zero terms or the operands' name sets differ or the shapes differ; distinct by canonical case text")

DEFAULT_OPTS = {"retain_coefficients": False, "retain_names": True}
BOUND = {"int": 2 ** 62, "float": 2 ** 52, "complex": 2 ** 52}
NARROW_BOUND = {"int16": 2 ** 14, "int32": 2 ** 30, "float32": 2 ** 22, "complex64": 2 ** 22}


def gen_leaf(rng, common, kinds, leaf_kind=None, small=False):
    shape = gen.sub_shape(rng, common) if rng.random() < 0.5 else common
    kind = gen.choice(rng, kinds)
    lk = leaf_kind or gen.choice(rng, ["poly", "ndarray", "scalar", "list"], p=[.7, .12, .1, .08])
    if lk == "poly":
        s = gen.gen_struct(rng, shape=shape, kind=kind, nterms=int(rng.integers(0, 4 if small else 7)))
        r = rng.random()
        if r < 0.12:
            # coefficient dtypes the compiled kernel does not know (values stay exactly representable)
            s["dtype"] = {"int": gen.choice(rng, ["int32", "int16"]), "float": "float32", "complex": "complex64"}[kind]
        elif r < 0.2 and s["terms"]:
            # an exponent beyond what one key byte can hold
            k = int(rng.integers(len(s["terms"])))
            j = int(rng.integers(len(s["names"])))
            s["terms"][k][0][j] += int(gen.choice(rng, [66, 70, 130, 260]))
            seen = set()
            s["terms"] = [t for t in s["terms"] if not (tuple(t[0]) in seen or seen.add(tuple(t[0])))]
            if kind == "int" and rng.random() < .5:
                # ... together with a 64-bit coefficient that no double can hold (the fallback path must stay in integers)
                t = s["terms"][int(rng.integers(len(s["terms"])))]
                t[1][int(rng.integers(len(t[1])))] = int(2 ** int(rng.integers(54, 59)) + 1) * int(gen.choice(rng, [1, -1]))
        elif r < 0.24 and s["terms"] and kind == "int":
            t = s["terms"][int(rng.integers(len(s["terms"])))]
            t[1][int(rng.integers(len(t[1])))] = int(2 ** int(rng.integers(54, 59)) + 1) * int(gen.choice(rng, [1, -1]))
    else:
        if lk == "scalar":
            shape = ()
        s = gen.gen_const_struct(rng, shape=shape, kind=kind)
    s["as"] = "poly_T" if lk == "poly" and len(s["shape"]) >= 2 and rng.random() < .15 else lk
    if lk == "ndarray" and rng.random() < .25:
        s["as"] = "ndarray_ro"      # a read-only array operand
    if lk == "list" and kind in ("float", "complex") and rng.random() < .6:
        s["as"] = "list_mixed"
    if s["as"] == "poly" and len(s["names"]) >= 2 and rng.random() < .15:
        # same polynomial, names declared in another order (reversed, or rotated: not its own inverse for 3+ names)
        s["as"] = "poly_perm" if rng.random() < .5 else "poly_rot"
    return s


def gen_tree(rng, depth, nleaves_box, force_poly=True):
    """returns tree with leaf placeholders; every binary node has a poly-carrying side"""
    if depth == 0:
        i = nleaves_box[0]
        nleaves_box[0] += 1
        return ["leaf", i]
    op = gen.choice(rng, ["add", "sub", "mul", "neg", "pos", "pow", "powarr"], p=[.26, .19, .26, .08, .04, .12, .05])
    if op in ("neg", "pos"):
        return [op, gen_tree(rng, depth - 1, nleaves_box)]
    if op == "powarr":
        # `**` with an array of exponents in the middle of a program (shape fixed later so that it broadcasts)
        return ["powarr", gen_tree(rng, depth - 1, nleaves_box), None, [int(x) for x in rng.integers(0, 3, size=6)]]
    if op == "pow":
        return ["pow", gen_tree(rng, depth - 1, nleaves_box), int(rng.integers(0, 4 if depth > 1 else 7))]
    d2 = int(rng.integers(0, depth))
    sides = [gen_tree(rng, depth - 1, nleaves_box), gen_tree(rng, d2, nleaves_box)]
    if rng.random() < 0.5:
        sides.reverse()
    return [op, sides[0], sides[1]]


def leaves_of(tree, out=None):
    out = [] if out is None else out
    if tree[0] == "leaf":
        out.append(tree[1])
    else:
        for sub in tree[1:]:
            if isinstance(sub, list) and sub and isinstance(sub[0], str):
                leaves_of(sub, out)
    return out


def bound_of(tree, env):
    """(numerator bound over 2**k, k, nterms bound) - conservative magnitude tracking"""
    op = tree[0]
    if op == "leaf":
        b, k = gen.l1_bits(env[tree[1]])
        return max(b, 1), k, max(1, len(env[tree[1]]["terms"]))
    if op in ("neg", "pos"):
        return bound_of(tree[1], env)
    if op == "pow":
        b, k, n = bound_of(tree[1], env)
        return b ** max(tree[2], 1), k * tree[2], n ** max(tree[2], 1)
    if op == "powarr":
        b, k, n = bound_of(tree[1], env)
        top = max(tree[3] + [1])
        return b ** top, k * top, n ** top
    b1, k1, n1 = bound_of(tree[1], env)
    b2, k2, n2 = bound_of(tree[2], env)
    if op == "mul":
        return b1 * b2, k1 + k2, n1 * n2
    k = max(k1, k2)
    return b1 * 2 ** (k - k1) + b2 * 2 ** (k - k2), k, n1 + n2


def poly_side(tree, env):
    """does evaluating this subtree with Python operators certainly go through numpoly?"""
    if tree[0] == "leaf":
        return env[tree[1]]["as"] in ("poly", "poly_T", "poly_perm", "poly_rot")
    if tree[0] in ("neg", "pos", "pow", "powarr"):
        return poly_side(tree[1], env)
    return poly_side(tree[1], env) or poly_side(tree[2], env)


def valid_tree(tree, env):
    """every binary node needs a polynomial on one side; unary/pow nodes need a polynomial operand"""
    op = tree[0]
    if op == "leaf":
        return True
    if op in ("neg", "pos", "pow", "powarr"):
        return poly_side(tree[1], env) and valid_tree(tree[1], env)
    return (poly_side(tree[1], env) or poly_side(tree[2], env)) and valid_tree(tree[1], env) and valid_tree(tree[2], env)


def fix_powarr(tree, rng, common):
    """give every array-exponent node a shape that broadcasts with everything else in the program"""
    if tree[0] == "powarr":
        kshape = list(gen.sub_shape(rng, common)) if common else []
        if not kshape and rng.random() < .5 and not common:
            kshape = [1]
        size = int(numpy.prod(kshape, dtype=int))
        tree[2] = kshape
        tree[3] = (tree[3] * (size // len(tree[3]) + 1))[:size]
    for sub in tree[1:]:
        if isinstance(sub, list) and sub and isinstance(sub[0], str):
            fix_powarr(sub, rng, common)


def gen_case(rng, idx, depth):
    common = gen.gen_shape(rng)
    kinds = gen.choice(rng, [["int"], ["float"], ["int", "float"], ["complex", "int"], ["complex", "float"]],
                       p=[.5, .15, .15, .1, .1])
    for _ in range(50):
        box = [0]
        tree = gen_tree(rng, depth, box)
        fix_powarr(tree, rng, common)
        env = [gen_leaf(rng, common, kinds, small=depth >= 3) for _ in range(box[0])]
        if not valid_tree(tree, env):
            continue
        b, k, n = bound_of(tree, env)
        kind = "complex" if any(e["kind"] == "complex" for e in env) else "float" if any(e["kind"] == "float" for e in env) else "int"
        if b >= BOUND[kind] or n > 400:
            continue
        narrow = [NARROW_BOUND[e["dtype"]] for e in env if e.get("dtype") in NARROW_BOUND]
        if narrow and b >= min(narrow):
            continue
        return {"id": idx, "prop": "C01", "op": "expr", "opts": DEFAULT_OPTS, "env": env, "tree": tree, "depth": depth}
    # fall back to a trivially valid case
    env = [gen_leaf(rng, common, ["int"], leaf_kind="poly"), gen_leaf(rng, common, ["int"], leaf_kind="poly")]
    return {"id": idx, "prop": "C01", "op": "expr", "opts": DEFAULT_OPTS, "env": env, "tree": ["add", ["leaf", 0], ["leaf", 1]],
            "depth": 1}


def eval_impl(tree, objs):
    op = tree[0]
    if op == "leaf":
        return objs[tree[1]]
    if op == "neg":
        return -eval_impl(tree[1], objs)
    if op == "pos":
        return +eval_impl(tree[1], objs)
    if op == "pow":
        return eval_impl(tree[1], objs) ** tree[2]
    if op == "powarr":
        return eval_impl(tree[1], objs) ** numpy.array(tree[3], dtype=int).reshape(tuple(tree[2]))
    a, b = eval_impl(tree[1], objs), eval_impl(tree[2], objs)
    return {"add": operator.add, "sub": operator.sub, "mul": operator.mul}[op](a, b)


def run_impl(case, monitor=None):
    """-> record {"status":"ok", struct...} or {"status":"err","kind":...}"""
    objs = [gen.materialize(e, e["as"]) for e in case["env"]]
    try:
        with time_limit(20):
            if monitor is not None:
                with monitor.watch("C01:" + json.dumps(case["tree"]), *objs):
                    res = eval_impl(case["tree"], objs)
            else:
                res = eval_impl(case["tree"], objs)
    except (Exception, CaseTimeout) as err:  # noqa: BLE001
        return {"status": "err", "kind": err_kind(err), "msg": f"{type(err).__name__}: {err}"[:200]}
    out = any_to_struct(res)
    out["status"] = "ok"
    out["wf"] = wf_problems(res) if isinstance(res, numpoly.ndpoly) else []
    return out


def compare(case, model, impl):
    """-> (what, tags) on a property-level difference, else None"""
    tags = [f"op:{o}" for o in sorted(set(ops_of(case["tree"])))]
    if model.get("status") == "bad":
        raise RuntimeError(f"driver rejected case {case['id']}: {model.get('msg')}")
    if model["status"] == "err":
        if impl["status"] == "err":
            return None
        return (f"model says error {model['kind']} (shapes do not broadcast) but the implementation returned a value", tags)
    if impl["status"] == "err":
        return (f"implementation raised {impl['msg']} where the exact result exists", tags + [f"raises:{impl['kind']}"])
    if list(model["shape"]) != list(impl["shape"]):
        return (f"shape {impl['shape']} != broadcast shape {model['shape']}", tags + ["shape"])
    dm, di = den_of_struct(model), den_of_struct(impl)
    if dm != di:
        return (f"value differs: implementation {den_key(di)[:300]} ; exact {den_key(dm)[:300]}", tags + ["value"])
    return None


def ops_of(tree, out=None):
    out = [] if out is None else out
    if tree[0] != "leaf":
        out.append(tree[0])
        for sub in tree[1:]:
            if isinstance(sub, list) and sub and isinstance(sub[0], str):
                ops_of(sub, out)
    return out


def driver_case(case):
    return {"id": case["id"], "op": "expr", "opts": case.get("opts", {}),
            "env": [{"names": e["names"], "shape": e["shape"], "terms": e["terms"]} for e in case["env"]],
            "tree": case["tree"]}


def nontrivial(case, model):
    if model.get("status") != "ok":
        return False
    nz = len(den_of_struct(model))
    names = {tuple(e["names"]) for e in case["env"]}
    shapes = {tuple(e["shape"]) for e in case["env"]}
    return nz >= 2 or len(names) > 1 or len(shapes) > 1


def run_cases(ctx, cases, monitor):
    models = run_driver([driver_case(c) for c in cases])
    for case, model in zip(cases, models):
        impl = run_impl(case, monitor)
        ctx.evaluations += 1
        ctx.count(f"depth={case.get('depth')}")
        for o in set(ops_of(case["tree"])):
            ctx.count(f"op={o}")
        for e in case["env"]:
            ctx.count(f"leaf={e['as']}/{e['kind']}/ndim{len(e['shape'])}/terms{len(e['terms'])}")
        ctx.count(f"model={model.get('status')}:{model.get('kind')}")
        res = compare(case, model, impl)
        if res:
            ctx.fail(case, res[0], res[1])
        elif impl["status"] == "ok" and model["status"] == "ok":
            if impl.get("wf"):
                ctx.fail(case, f"result is not well-formed: {impl['wf']}", ["wf"])
            if (impl["names"], [t[0] for t in impl["terms"]]) != (model["names"], [t[0] for t in model["terms"]]):
                ctx.drift.append({"id": case["id"], "impl": [impl["names"], [t[0] for t in impl["terms"]]],
                                  "model": [model["names"], [t[0] for t in model["terms"]]]})
        if nontrivial(case, model):
            ctx.nontrivial_add(json.dumps([case["env"], case["tree"]], sort_keys=True))
        ctx.sample({"tree": case["tree"], "env": [{k: e[k] for k in ("names", "shape", "as", "terms")} for e in case["env"]],
                    "model": {k: model.get(k) for k in ("status", "shape", "names", "terms", "kind")}})


def gen_powarr(rng, idx):
    """`**` with an array of exponents (ndarray / list / constant polynomial), broadcasting both ways"""
    sa, sk = gen.gen_shape_pair(rng)
    if not sa and not sk:
        sk = (2,)
    if rng.random() < .3:
        # a size-1 axis of the base stretched in a non-leading position (seeded change C01-12: cyclic instead of
        # broadcast indexing of the bases)
        sa, sk = gen.choice(rng, [((2, 1), (2,)), ((2, 1), (3,)), ((2, 1), (2, 3)), ((2, 1, 2), (3, 2)), ((3, 1), (1, 2)), ((2, 1), (1, 3))])
    a = gen.gen_struct(rng, shape=sa, kind="int", nterms=int(rng.integers(0, 4)), maxexp=2, lim=2)
    a["as"] = "poly_T" if len(sa) >= 2 and rng.random() < .35 else "poly"
    n = int(numpy.prod(sk, dtype=int))
    ks = [int(x) for x in rng.integers(0, 4, size=n)]
    return {"id": idx, "prop": "C01", "op": "powarr", "opts": DEFAULT_OPTS, "a": a, "kshape": list(sk), "ks": ks,
            "kas": gen.choice(rng, ["ndarray", "list", "poly"])}


def run_powarr(ctx, cases, monitor):
    drv = [{"id": c["id"], "op": "powarr", "opts": c["opts"], "a": {k: c["a"][k] for k in ("names", "shape", "terms")},
            "kshape": c["kshape"], "ks": c["ks"]} for c in cases]
    for c, model in zip(cases, run_driver(drv)):
        a = gen.materialize(c["a"], c["a"].get("as", "poly"))
        k = numpy.array(c["ks"], dtype=int).reshape(tuple(c["kshape"]))
        kobj = k if c["kas"] == "ndarray" else k.tolist() if c["kas"] == "list" else numpoly.polynomial(k)
        ctx.evaluations += 1
        ctx.count("op=powarr")
        try:
            with time_limit(30), monitor.watch("C01:powarr", a):
                res = a ** kobj
            impl = any_to_struct(res)
            impl["status"] = "ok"
            impl["wf"] = wf_problems(res) if isinstance(res, numpoly.ndpoly) else []
        except (Exception, CaseTimeout) as err:  # noqa: BLE001
            impl = {"status": "err", "kind": err_kind(err), "msg": f"{type(err).__name__}: {err}"[:200]}
        case = dict(c, tree=["powarr"])
        r = compare(dict(case, tree=["pow", ["leaf", 0], 0]), model, impl)
        if r:
            ctx.fail(c, "array exponent: " + r[0], ["op:powarr"] + [t for t in r[1] if not t.startswith("op:")])
        if model.get("status") == "ok" and len(den_of_struct(model)) >= 2:
            ctx.nontrivial_add(json.dumps(["powarr", c["a"]["terms"], c["ks"], c["kshape"]]))


SHAPE_FAMILIES = {1: [[], [1], [1, 1]], 2: [[2], [1, 2], [2, 1]], 4: [[4], [2, 2], [1, 4], [4, 1]],
                  6: [[6], [2, 3], [3, 2], [1, 6], [1, 2, 3]]}


def hist_impl(case):
    obj = gen.materialize(case["env"][0], "poly")
    k = case["tree"][2]
    kobj = {"int": k, "int64": numpy.int64(k), "0d": numpy.array(k), "float": float(k)}[case["kas"]]
    try:
        res = obj ** kobj
        impl = any_to_struct(res)
        impl["status"] = "ok"
        # the caller now owns the result: scribbling over it must not reach any later result
        if isinstance(res, numpoly.ndpoly) and res.flags.writeable:
            for key in res.keys:
                res.values[key] = 77
    except Exception as err:  # noqa: BLE001
        impl = {"status": "err", "kind": err_kind(err), "msg": f"{type(err).__name__}: {err}"[:200]}
    return impl


def run_histories(ctx, rng, n):
    """the same elements laid out in several shapes, raised to the same power one after the other in one process, with
    every earlier result overwritten by the caller in between: a result depends on the operands of *this* call only
    (seeded change C01-7: a memo of powers keyed without the shape)"""
    cases = []
    for i in range(n):
        size = int(gen.choice(rng, [1, 2, 4, 6]))
        base = gen.gen_struct(rng, shape=(size,), kind=gen.choice(rng, ["int", "float"], p=[.8, .2]),
                              nterms=int(rng.integers(1, 4)), maxexp=2, lim=3)
        k = int(rng.integers(0, 4))
        for j, shape in enumerate(SHAPE_FAMILIES[size]):
            leaf = dict(base, shape=list(shape), **{"as": "poly"})
            cases.append({"id": f"hist{i}.{j}", "prop": "C01", "op": "expr", "opts": DEFAULT_OPTS, "env": [leaf],
                          "tree": ["pow", ["leaf", 0], k], "depth": 1, "history": i,
                          "kas": gen.choice(rng, ["int", "int64", "0d", "float"])})
    models = run_driver([driver_case(c) for c in cases])
    for case, model in zip(cases, models):
        ctx.evaluations += 1
        ctx.count("op=pow/history")
        impl = hist_impl(case)
        r = compare(case, model, impl)
        if r:
            ctx.fail(case, f"same elements in shape {case['env'][0]['shape']} after other layouts (exponent given as {case['kas']}): " + r[0],
                     r[1] + ["history"])
        if model.get("status") == "ok" and len(den_of_struct(model)) >= 2:
            ctx.nontrivial_add(json.dumps(["hist", case["env"][0]["terms"], case["env"][0]["shape"], k]))


def corpus_cases():
    """witnesses kept from earlier findings (run first)"""
    one = lambda names, shape, terms, kind="int", as_="poly": {
        "names": names, "shape": shape, "dtype": gen.KIND_DTYPE[kind], "kind": kind, "terms": terms, "as": as_}
    cases = []
    # (q0+1, q2) 1x2 times (q1, q0*q1) 2x1 : the non-vacuity example of Props/C01
    a = one([0, 2], [1, 2], [[[0, 0], [1, 0]], [[1, 0], [1, 0]], [[0, 1], [0, 1]]])
    b = one([0, 1], [2, 1], [[[0, 1], [1, 0]], [[1, 1], [0, 1]]])
    cases.append({"id": "corpus-bcast", "prop": "C01", "op": "expr", "opts": DEFAULT_OPTS, "env": [a, b],
                  "tree": ["mul", ["add", ["leaf", 0], ["leaf", 1]], ["pow", ["leaf", 1], 2]], "depth": 3})
    # cancelling terms
    c = one([0], [2], [[[1], [1, 2]], [[0], [3, 0]]])
    cases.append({"id": "corpus-cancel", "prop": "C01", "op": "expr", "opts": DEFAULT_OPTS, "env": [c, c],
                  "tree": ["sub", ["leaf", 0], ["leaf", 1]], "depth": 1})
    # q10 vs q2 ordering
    d = one([10], [], [[[1], [1]]])
    e = one([2], [], [[[1], [2]]])
    cases.append({"id": "corpus-q10", "prop": "C01", "op": "expr", "opts": DEFAULT_OPTS, "env": [d, e],
                  "tree": ["mul", ["leaf", 0], ["leaf", 1]], "depth": 1})
    # nested-list operands whose rows have different numeric types, the narrowest first (seeded change C01-8)
    poly = one([0, 1], [2, 2], [[[1, 0], [1, 0, 2, 0]], [[0, 1], [0, 1, 0, 3]], [[0, 0], [1, 1, 1, 1]]])
    for k, (kind, col) in enumerate([("float", [1, 2, [1, 2], 3]), ("float", [0, 1, 2, [-3, 4]]), ("complex", [1, 0, [0, 1, 1, 1], 2]),
                                     ("float", [2, [1, 4], 1, 1])]):
        lst = {"names": [0], "shape": [2, 2], "dtype": gen.KIND_DTYPE[kind], "kind": kind, "terms": [[[0], col]], "as": "list_mixed"}
        for op in ("mul", "add", "sub"):
            for order in ((0, 1), (1, 0)):
                cases.append({"id": f"corpus-mixedrows-{k}-{op}-{order[0]}", "prop": "C01", "op": "expr", "opts": DEFAULT_OPTS,
                              "env": [lst, poly], "tree": [op, ["leaf", order[0]], ["leaf", order[1]]], "depth": 1})
    return cases


def run(ctx):
    ctx.rule = RULE
    monitor = Monitor()
    rng = ctx.rng("trees")
    n = 1500 if ctx.quick else 25000
    cases = corpus_cases()
    for i in range(n):
        depth = int(gen.choice(rng, [1, 2, 3, 4], p=[.45, .3, .15, .1]))
        cases.append(gen_case(rng, i, depth))
    chunk = 500
    for i in range(0, len(cases), chunk):
        run_cases(ctx, cases[i:i + chunk], monitor)
        if ctx.out_of_time():
            ctx.notes.append(f"stopped after {i + chunk} cases: time budget")
            break
    prng = ctx.rng("powarr")
    run_powarr(ctx, [gen_powarr(prng, i) for i in range(150 if ctx.quick else 2500)] + [
        {"id": "corpus-D1", "prop": "C01", "op": "powarr", "opts": DEFAULT_OPTS, "kas": "ndarray", "kshape": [2, 1, 2], "ks": [1, 2, 0, 3],
         "a": {"names": [0], "shape": [2, 1, 2], "dtype": "int64", "kind": "int", "as": "poly", "terms": [[[1], [1, 2, 3, 4]], [[0], [1, 0, 1, 0]]]}}], monitor)
    run_histories(ctx, ctx.rng("histories"), 60 if ctx.quick else 1500)
    ctx.extra["argument_monitor"] = {"calls": monitor.calls, "mutations": monitor.events[:5]}
    for ev in monitor.events[:3]:
        ctx.notes.append(f"argument mutated (C17 monitor): {ev}")


def replay(ctx, case):
    if "history" in case:
        # the failure needs the earlier calls of its history: replay the whole family
        fam = []
        for j, shape in enumerate(SHAPE_FAMILIES[max(1, int(numpy.prod(case["env"][0]["shape"], dtype=int)))]):
            fam.append(dict(case, env=[dict(case["env"][0], shape=list(shape))]))
        models = run_driver([driver_case(c) for c in fam])
        for c, model in zip(fam, models):
            res = compare(c, model, hist_impl(c))
            if res:
                return res[0]
        return None
    if case.get("op") == "powarr":
        n = len(ctx.failures)
        run_powarr(ctx, [case], Monitor())
        return ctx.failures[n]["what"] if len(ctx.failures) > n else None
    model = run_driver([driver_case(case)])[0]
    impl = run_impl(case)
    res = compare(case, model, impl)
    return res[0] if res else None


def shrink(ctx, case):
    """greedy: replace the tree by failing sub-trees, then drop terms of leaves"""
    def fails(c):
        try:
            return replay(ctx, c) is not None
        except Exception:  # noqa: BLE001
            return False
    cur = case
    changed = True
    while changed:
        changed = False
        t = cur["tree"]
        if t[0] != "leaf":
            for sub in t[1:]:
                if isinstance(sub, list) and sub[0] != "leaf":
                    cand = dict(cur, tree=sub)
                    if fails(cand):
                        cur, changed = cand, True
                        break
        if changed:
            continue
        for li in set(leaves_of(cur["tree"])):
            leaf = cur["env"][li]
            for ti in range(len(leaf["terms"])):
                if len(leaf["terms"]) <= 1:
                    break
                new_leaf = dict(leaf, terms=leaf["terms"][:ti] + leaf["terms"][ti + 1:])
                cand = dict(cur, env=cur["env"][:li] + [new_leaf] + cur["env"][li + 1:])
                if fails(cand):
                    cur, changed = cand, True
                    break
            if changed:
                break
    return cur
